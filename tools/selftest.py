#!/usr/bin/env python3
"""Determinism self-test: for every claimed property run the same seeds in
several fresh processes at GOMAXPROCS 1, 4 and 16 and compare the per-case
trace hashes (case seed, trace hash, number of simulated runs).  Exit 0 when
every log is identical, 1 otherwise."""
import json, os, subprocess, sys, hashlib, tempfile
ROOT = os.path.dirname(os.path.dirname(os.path.abspath(__file__)))
BIN = os.path.join(ROOT, ".build", "simrun")
PROPS = sys.argv[1:] or ["C04", "C05", "C06", "C07", "C13", "C14", "C18"]
CASES = int(os.environ.get("SELFTEST_CASES", "40"))
SEEDS = [int(s) for s in os.environ.get("SELFTEST_SEEDS", "3,4,5").split(",")]
bad = 0
for prop in PROPS:
    for seed in SEEDS:
        digests = {}
        procs = []
        for gmp in (1, 4, 16):
            for rep in range(3):
                out = tempfile.mktemp(suffix=".json")
                env = dict(os.environ, GOMAXPROCS=str(gmp), VERIF_TRACELOG="1", VERIF_NOSHRINK="1")
                p = subprocess.Popen([BIN, "-prop", prop, "-seed", str(seed), "-cases", str(CASES), "-budget", "10m",
                                      "-out", out, "-replays", tempfile.mkdtemp(), "-known", os.path.join(ROOT, "known_findings.jsonl")],
                                     env=env, stdout=subprocess.DEVNULL, stderr=subprocess.DEVNULL)
                procs.append((gmp, rep, out, p))
        for gmp, rep, out, p in procs:
            p.wait()
            try:
                d = json.load(open(out))
                log = "\n".join(d.get("trace_log") or [])
                digests[(gmp, rep)] = hashlib.sha256(log.encode()).hexdigest()[:16] + f" ({len(d.get('trace_log') or [])} cases)"
                os.remove(out)
            except Exception as e:
                digests[(gmp, rep)] = f"ERROR {e}"
        vals = set(digests.values())
        status = "identical" if len(vals) == 1 else "DIVERGED"
        if len(vals) != 1:
            bad += 1
        print(f"{prop} seed={seed}: {len(digests)} processes (GOMAXPROCS 1/4/16 x3) -> {status} {sorted(vals)}", flush=True)
sys.exit(1 if bad else 0)
