#!/bin/sh
# Confirms a seeded change produced in a scratch worktree and files it under /verif/seeded/<name>/.
# usage: verify_seeded.sh <worktree> <name> <demo test file (relative to worktree)> <go test -run pattern> [extra go test flags]
wt="$1"; name="$2"; demo="$3"; pat="$4"; shift 4; flags="$*"
export GOFLAGS=-mod=mod GOPROXY=off GOSUMDB=off GOTOOLCHAIN=local TMPDIR="$wt/.tmp"
mkdir -p "$TMPDIR" /verif/seeded/"$name"
out=/verif/seeded/"$name"
cd "$wt" || exit 2
git diff -- . > "$out/patch.diff"
[ -s "$out/patch.diff" ] || { echo "$name: empty patch"; exit 2; }
cp "$demo" "$out/"
demodir=$(dirname "$demo")
log="$out/verify.log"; : > "$log"
go build ./... >>"$log" 2>&1 || { echo "$name: does not build"; exit 1; }
(cd "$demodir" && go test -vet=off -count=1 $flags -run "$pat" . >>"$log" 2>&1); with=$?
git checkout -- . 
(cd "$demodir" && go test -vet=off -count=1 $flags -run "$pat" . >>"$log" 2>&1); without=$?
git apply "$out/patch.diff"
mv "$demo" "$TMPDIR/demo.go.bak"
suite=1
for attempt in 1 2 3 4; do
  # upstream's TestPreparedStmtConcurrentClose and TestUpdateBelongsTo (timestamp comparison) are flaky under machine load (also on the unchanged tree): retry
  : > "$log.suite"
  (go test -vet=off -count=1 ./... >>"$log.suite" 2>&1 && cd tests && go test -vet=off -count=1 ./... >>"$log.suite" 2>&1); suite=$?
  cat "$log.suite" >> "$log"
  [ $suite -eq 0 ] && break
  if grep -q "^--- FAIL" "$log.suite" && [ "$(grep "^--- FAIL" "$log.suite" | grep -vcE "TestPreparedStmtConcurrentClose|TestUpdateBelongsTo")" -eq 0 ]; then continue; fi
  break
done
rm -f "$log.suite"
mv "$TMPDIR/demo.go.bak" "$demo"
echo "$name: demo_with_change_exit=$with demo_without_change_exit=$without existing_suite_with_change_exit=$suite"
[ $with -ne 0 ] && [ $without -eq 0 ] && [ $suite -eq 0 ] && echo "$name: CONFIRMED" || echo "$name: NOT CONFIRMED"
