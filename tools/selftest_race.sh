#!/bin/sh
# Sensitivity self-test of the scheduler seam: the baton hand-off (and WaitUntil)
# must be invisible to the race detector.  sim/sched/hb_test.go runs three tiny
# two-task programs whose accesses are physically sequential but logically
# concurrent; the race detector has to report every one of them.
cd "$(dirname "$0")/../sim" && . ./env.sh
out=$(go test -race -tags verif -count=1 -run TestHandOffInvisible ./sched 2>&1)
n=$(echo "$out" | grep -c "WARNING: DATA RACE")
echo "race reports: $n (expected >= 5)"
[ "$n" -ge 5 ] && echo "seam is invisible to the race detector: ok" || { echo "$out" | tail -20; exit 1; }
