#!/bin/sh
# Runs one seeded change (directory name under /verif/seeded) against the check that
# is to catch it; prints one line.  Used by verify_all_seeded.sh (xargs -P).
cd /verif || exit 2
n=$1
d=seeded/$n
p=$(echo "$n" | cut -d- -f1)
other=$(python3 -c "import json;print(json.load(open('$d/meta.json')).get('detected_by',''))" 2>/dev/null)
[ -n "$other" ] && p=$other
out=$(tools/try_patch.sh "$d/patch.diff" "$p" 2>&1 | head -2 | tr '\n' ' ' | cut -c1-170)
case "$out" in
  *"exit=1"*) echo "detected   $n: $out";;
  *"does not apply"*) echo "no-apply   $n";;
  *) if grep -q '"expected": "shadowed"' "$d/meta.json"; then echo "shadowed   $n (see meta.json)"; elif grep -q '"expected": "not_detected"' "$d/meta.json"; then echo "undetected $n (documented, see meta.json)"; else echo "MISSED     $n: $out"; fi;;
esac
