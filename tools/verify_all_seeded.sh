#!/bin/sh
# Runs every seeded change against the check of the property it breaks (quick tier),
# each in its own scratch worktree.  Prints one line per change; exit 1 if one that
# applies is not detected.
cd /verif || exit 2
bad=0
for d in seeded/*/; do
  n=$(basename "$d"); p=$(echo "$n" | cut -d- -f1)
  other=$(python3 -c "import json;print(json.load(open('$d/meta.json')).get('detected_by',''))" 2>/dev/null)
  [ -n "$other" ] && p=$other
  out=$(tools/try_patch.sh "$d/patch.diff" "$p" 2>&1 | head -2 | tr '\n' ' ' | cut -c1-170)
  case "$out" in
    *"exit=1"*) echo "detected   $n: $out";;
    *"does not apply"*) echo "no-apply   $n";;
    *) if grep -q '"expected": "shadowed"' "$d/meta.json"; then echo "shadowed   $n (see meta.json)"; elif grep -q '"expected": "not_detected"' "$d/meta.json"; then echo "undetected $n (documented, see meta.json)"; else echo "MISSED     $n: $out"; bad=1; fi;;
  esac
done
exit $bad
