#!/bin/sh
# Runs every seeded change against the check of the property it breaks (quick tier),
# each in its own scratch worktree, JOBS at a time (default 4).  Prints one line per
# change; exit 1 if one that applies is not detected.
# usage: tools/verify_all_seeded.sh [names-file]   (default: every directory under seeded/)
cd /verif || exit 2
list=${1:-}
if [ -z "$list" ]; then
  list=$(mktemp)
  ls seeded > "$list"
fi
out=$(mktemp)
xargs -P "${JOBS:-4}" -n 1 tools/verify_one_seeded.sh < "$list" | tee "$out"
if grep -q '^MISSED' "$out"; then rm -f "$out"; exit 1; fi
rm -f "$out"
exit 0
