// mutate: a small AST mutator used to measure how many simple code changes in
// the functions a property is anchored in the checks notice (DESIGN.md §16).
//
//	mutate -file F -funcs a,b (or -funcs '*') -list            prints one line per mutation point
//	mutate -file F -funcs a,b -apply K -out G                  writes the file with mutation K applied
//
// Operators: del (an expression, defer, go, plain-assignment or inc/dec
// statement is removed), neg (an if condition is negated), bin (== != && || <
// <= > >= swapped with its counterpart).  Calls into the simhook package are
// never touched.
package main

import (
	"bytes"
	"flag"
	"fmt"
	"go/ast"
	"go/parser"
	"go/printer"
	"go/token"
	"os"
	"strings"
)

var swap = map[token.Token]token.Token{
	token.EQL: token.NEQ, token.NEQ: token.EQL, token.LAND: token.LOR, token.LOR: token.LAND,
	token.LSS: token.LEQ, token.LEQ: token.LSS, token.GTR: token.GEQ, token.GEQ: token.GTR,
}

func isSimhook(n ast.Node) bool {
	found := false
	ast.Inspect(n, func(x ast.Node) bool {
		if se, ok := x.(*ast.SelectorExpr); ok {
			if id, ok := se.X.(*ast.Ident); ok && id.Name == "simhook" {
				found = true
			}
		}
		return !found
	})
	return found
}

type point struct {
	kind string
	line int
	text string
}

func main() {
	file := flag.String("file", "", "go source file")
	funcs := flag.String("funcs", "*", "comma separated function names (methods by bare name) or *")
	list := flag.Bool("list", false, "list mutation points")
	apply := flag.Int("apply", -1, "apply mutation point K")
	out := flag.String("out", "", "output file")
	flag.Parse()
	fset := token.NewFileSet()
	f, err := parser.ParseFile(fset, *file, nil, parser.ParseComments)
	if err != nil {
		fmt.Fprintln(os.Stderr, err)
		os.Exit(2)
	}
	want := map[string]bool{}
	for _, n := range strings.Split(*funcs, ",") {
		want[strings.TrimSpace(n)] = true
	}
	src, _ := os.ReadFile(*file)
	lines := strings.Split(string(src), "\n")
	lineOf := func(p token.Pos) (int, string) {
		l := fset.Position(p).Line
		t := ""
		if l-1 < len(lines) {
			t = strings.TrimSpace(lines[l-1])
		}
		return l, t
	}
	var pts []point
	k := 0
	hit := func(kind string, pos token.Pos) bool {
		l, t := lineOf(pos)
		pts = append(pts, point{kind, l, t})
		k++
		return k-1 == *apply
	}
	var mutBlock func(list []ast.Stmt)
	var mutNode func(n ast.Node)
	mutNode = func(n ast.Node) {
		ast.Inspect(n, func(x ast.Node) bool {
			switch v := x.(type) {
			case *ast.BlockStmt:
				mutBlock(v.List)
			case *ast.CaseClause:
				mutBlock(v.Body)
			case *ast.CommClause:
				mutBlock(v.Body)
			case *ast.IfStmt:
				if !isSimhook(v.Cond) && hit("neg", v.Cond.Pos()) {
					v.Cond = &ast.UnaryExpr{Op: token.NOT, X: &ast.ParenExpr{X: v.Cond}}
				}
			case *ast.BinaryExpr:
				if to, ok := swap[v.Op]; ok && hit("bin", v.OpPos) {
					v.Op = to
				}
			}
			return true
		})
	}
	mutBlock = func(list []ast.Stmt) {
		for i, st := range list {
			del := false
			switch v := st.(type) {
			case *ast.ExprStmt, *ast.DeferStmt, *ast.GoStmt, *ast.IncDecStmt:
				del = true
			case *ast.AssignStmt:
				del = v.Tok != token.DEFINE
			}
			if del && !isSimhook(st) && hit("del", st.Pos()) {
				list[i] = &ast.EmptyStmt{Semicolon: st.Pos(), Implicit: false}
			}
		}
	}
	for _, d := range f.Decls {
		fd, ok := d.(*ast.FuncDecl)
		if !ok || fd.Body == nil || !(want["*"] || want[fd.Name.Name]) {
			continue
		}
		mutNode(fd.Body)
	}
	if *list {
		for i, p := range pts {
			fmt.Printf("%d\t%s\t%d\t%s\n", i, p.kind, p.line, p.text)
		}
		return
	}
	if *apply < 0 || *apply >= len(pts) {
		fmt.Fprintln(os.Stderr, "no such mutation point")
		os.Exit(2)
	}
	var buf bytes.Buffer
	if err := (&printer.Config{Mode: printer.UseSpaces | printer.TabIndent, Tabwidth: 8}).Fprint(&buf, fset, f); err != nil {
		fmt.Fprintln(os.Stderr, err)
		os.Exit(2)
	}
	if err := os.WriteFile(*out, buf.Bytes(), 0o644); err != nil {
		fmt.Fprintln(os.Stderr, err)
		os.Exit(2)
	}
}
