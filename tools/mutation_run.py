#!/usr/bin/env python3
"""Mutation run (DESIGN.md section 16): applies simple AST mutations (tools/mutate)
to the functions the claimed properties are anchored in, keeps the mutants that
compile and pass gorm's own test suite, and runs the quick checks of the
properties the mutated file is relevant to against each of them.

Every worker owns one scratch worktree of /repo under /tmp/wt (removed at the
end); /repo itself is never touched.  Results: mutation/results.jsonl (one line
per mutant) and a summary on stdout.

usage: tools/mutation_run.py [--workers N] [--limit K] [--targets name,...]
"""
import argparse, json, os, random, subprocess, sys, threading, queue, shutil, time

ROOT = os.path.dirname(os.path.dirname(os.path.abspath(__file__)))
MUT = os.path.join(ROOT, ".build", "mutate")
ENV = dict(os.environ, GOFLAGS="-mod=mod", GOPROXY="off", GOSUMDB="off", GOTOOLCHAIN="local")

# file -> (functions, properties whose checks should notice)
TARGETS = {
    "prepare_stmt": ("prepare_stmt.go", "*", ["C14", "C18", "C04"]),
    "transaction_cb": ("callbacks/transaction.go", "*", ["C05", "C13", "C04"]),
    "tx_api": ("finisher_api.go", "Transaction,Begin,Commit,Rollback,SavePoint,RollbackTo,CreateInBatches,Save,FirstOrCreate,Create", ["C04", "C05", "C13"]),
    "session": ("gorm.go", "Session,WithContext,getInstance,Debug,AddError", ["C06", "C18", "C04"]),
    "clone": ("statement.go", "clone,AddClause,AddClauseIfNotExists", ["C06"]),
    "callmethod": ("callbacks/callmethod.go", "*", ["C13", "C05"]),
    "hooks_create": ("callbacks/create.go", "BeforeCreate,AfterCreate", ["C13", "C05"]),
    "hooks_update": ("callbacks/update.go", "BeforeUpdate,AfterUpdate,SetupUpdateReflectValue", ["C13", "C05"]),
    "hooks_delete": ("callbacks/delete.go", "BeforeDelete,AfterDelete,DeleteBeforeAssociations", ["C13", "C05", "C18"]),
    "hooks_query": ("callbacks/query.go", "AfterQuery,Preload", ["C13", "C18"]),
    "assoc_cb": ("callbacks/associations.go", "saveAssociations,checkAssociationsSaved,onConflictOption", ["C05", "C13", "C18"]),
    "row_raw": ("callbacks/row.go", "*", ["C18", "C14"]),
    "clause_where": ("clause/where.go", "MergeClause,Build", ["C06"]),
    "clause_misc": ("clause/order_by.go", "MergeClause", ["C06"]),
    "clause_select": ("clause/select.go", "MergeClause", ["C06"]),
    "clause_from": ("clause/from.go", "MergeClause", ["C06"]),
    "clause_group": ("clause/group_by.go", "MergeClause", ["C06"]),
    "clause_limit": ("clause/limit.go", "MergeClause", ["C06"]),
    "schema_cache": ("schema/schema.go", "ParseWithSpecialTableName,getOrParse", ["C07"]),
    "preload_cb": ("callbacks/preload.go", "preloadEntryPoint,preloadDB", ["C18", "C07"]),
}

lock = threading.Lock()
CHECKROOT = ROOT  # replaced by a frozen copy of /verif in main(): the checks must not change under a run


def sh(cmd, cwd=None, timeout=1800, env=None):
    try:
        r = subprocess.run(cmd, cwd=cwd, env=env or ENV, capture_output=True, text=True, timeout=timeout)
        return r.returncode, r.stdout + r.stderr
    except subprocess.TimeoutExpired:
        return 124, "timeout"


def worker(widx, q, outf):
    wt = f"/tmp/wt/mut-{os.getpid()}-{widx}"
    sh(["git", "-C", "/repo", "worktree", "add", "-q", "--detach", wt, "HEAD"])
    tmp = os.path.join(wt, ".tmp")
    os.makedirs(tmp, exist_ok=True)
    env = dict(ENV, TMPDIR=tmp)
    try:
        while True:
            try:
                m = q.get_nowait()
            except queue.Empty:
                return
            rec = dict(m)
            t0 = time.time()
            sh(["git", "checkout", "--", "."], cwd=wt)
            path = os.path.join(wt, m["file"])
            code, out = sh([MUT, "-file", path, "-funcs", m["funcs"], "-apply", str(m["k"]), "-out", path])
            if code != 0:
                rec["status"] = "mutate_failed"
            elif m.get("recheck"):
                # second pass over a survivor the first pass did not notice: the remaining checks
                rec["status"] = "survived_suite"
                rec["checks"] = dict(m.get("checks") or {})
                for p in m["recheck"]:
                    c, o = sh([os.path.join(CHECKROOT, "check"), p], cwd=CHECKROOT, env=dict(ENV, VERIF_REPO=wt, VERIF_SEED="1"), timeout=1800)
                    keys = [l.split("violation ", 1)[1].strip() for l in o.splitlines() if "] violation " in l][:3]
                    rec["checks"][p] = {"exit": c, "keys": keys}
                    if c == 1:
                        break
                rec["detected"] = any(v["exit"] == 1 for v in rec["checks"].values())
                rec["trouble"] = any(v["exit"] not in (0, 1) for v in rec["checks"].values())
                rec["pass"] = 2
                rec.pop("recheck", None)
            else:
                code, out = sh(["go", "build", "./..."], cwd=wt, env=env)
                if code != 0:
                    rec["status"] = "no_compile"
                else:
                    code, out = sh(["go", "test", "-vet=off", "-count=1", "./..."], cwd=wt, env=env, timeout=900)
                    if code == 0:
                        code, out = sh(["go", "test", "-vet=off", "-count=1", "./..."], cwd=os.path.join(wt, "tests"), env=env, timeout=1200)
                        if code != 0 and "TestPreparedStmtConcurrentClose" in out and out.count("--- FAIL") == 1:
                            code, out = sh(["go", "test", "-vet=off", "-count=1", "./..."], cwd=os.path.join(wt, "tests"), env=env, timeout=1200)
                    if code != 0:
                        rec["status"] = "killed_by_suite"
                    else:
                        rec["status"] = "survived_suite"
                        rec["checks"] = {}
                        for p in m["props"]:
                            c, o = sh([os.path.join(CHECKROOT, "check"), p], cwd=CHECKROOT, env=dict(ENV, VERIF_REPO=wt, VERIF_SEED="1"), timeout=1800)
                            keys = [l.split("violation ", 1)[1].strip() for l in o.splitlines() if "] violation " in l][:3]
                            rec["checks"][p] = {"exit": c, "keys": keys}
                            if c == 1:
                                break  # noticed: no need to run the remaining checks
                        rec["detected"] = any(v["exit"] == 1 for v in rec["checks"].values())
                        rec["trouble"] = any(v["exit"] not in (0, 1) for v in rec["checks"].values())
            rec["wall_s"] = round(time.time() - t0, 1)
            with lock:
                outf.write(json.dumps(rec) + "\n")
                outf.flush()
                print(f"[w{widx}] {m['target']}#{m['k']} {m['kind']} L{m['line']}: {rec['status']}" + (f" detected={rec.get('detected')}" if rec["status"] == "survived_suite" else ""), flush=True)
    finally:
        sh(["git", "-C", "/repo", "worktree", "remove", "--force", wt])
        shutil.rmtree(os.path.join(CHECKROOT, ".build", "alt-" + wt.strip("/").replace("/", "_")), ignore_errors=True)


def main():
    ap = argparse.ArgumentParser()
    ap.add_argument("--workers", type=int, default=4)
    ap.add_argument("--limit", type=int, default=0, help="sample this many mutants (seeded)")
    ap.add_argument("--targets", default="")
    ap.add_argument("--out", default=os.path.join(ROOT, "mutation", "results.jsonl"))
    ap.add_argument("--recheck", action="store_true", help="second pass: run the checks not yet run (and re-run troubled ones) on undetected survivors; results go to mutation/recheck.jsonl")
    args = ap.parse_args()
    if args.recheck:
        return recheck(args)
    os.makedirs(os.path.dirname(args.out), exist_ok=True)
    done = set()
    if os.path.exists(args.out):
        for l in open(args.out):
            d = json.loads(l)
            done.add((d["target"], d["k"]))
    muts = []
    names = [n for n in args.targets.split(",") if n] or list(TARGETS)
    for name in names:
        f, funcs, props = TARGETS[name]
        code, out = sh([MUT, "-file", os.path.join("/repo", f), "-funcs", funcs, "-list"])
        for l in out.splitlines():
            k, kind, line, text = l.split("\t", 3)
            if (name, int(k)) in done:
                continue
            muts.append(dict(target=name, file=f, funcs=funcs, k=int(k), kind=kind, line=int(line), text=text, props=props))
    if args.limit and len(muts) > args.limit:
        random.Random(1).shuffle(muts)
        muts = muts[:args.limit]
    print(f"{len(muts)} mutants to run ({len(done)} already done)", flush=True)
    # freeze the checks: a copy of /verif (sources only) that later edits cannot reach
    global CHECKROOT
    CHECKROOT = f"/tmp/mutverif-{os.getpid()}"
    shutil.rmtree(CHECKROOT, ignore_errors=True)
    subprocess.run(["rsync", "-a", "--exclude", ".build", "--exclude", "replays", "--exclude", "mutation", "--exclude", ".git", ROOT + "/", CHECKROOT + "/"], check=True)
    q = queue.Queue()
    for m in muts:
        q.put(m)
    with open(args.out, "a") as outf:
        ths = [threading.Thread(target=worker, args=(i, q, outf)) for i in range(args.workers)]
        for t in ths:
            t.start()
        for t in ths:
            t.join()
    shutil.rmtree(CHECKROOT, ignore_errors=True)


def recheck(args):
    global CHECKROOT
    src = args.out
    out = os.path.join(os.path.dirname(src), "recheck.jsonl")
    done = set()
    if os.path.exists(out):
        for l in open(out):
            d = json.loads(l)
            done.add((d["target"], d["k"]))
    cheap = ["C04", "C05", "C06", "C13", "C18"]
    muts, seen = [], set()
    for l in open(src):
        d = json.loads(l)
        key = (d["target"], d["k"])
        if key in seen or key in done:
            continue
        seen.add(key)
        if d["status"] != "survived_suite" or d.get("detected"):
            continue
        ran_ok = {p for p, v in (d.get("checks") or {}).items() if v["exit"] in (0, 1)}
        todo = [p for p in d["props"] if p not in ran_ok] + [p for p in cheap if p not in d["props"]]
        d["recheck"] = todo
        d["checks"] = {p: v for p, v in (d.get("checks") or {}).items() if v["exit"] in (0, 1)}
        muts.append(d)
    print(f"{len(muts)} survivors to re-check", flush=True)
    CHECKROOT = f"/tmp/mutverif-{os.getpid()}"
    shutil.rmtree(CHECKROOT, ignore_errors=True)
    subprocess.run(["rsync", "-a", "--exclude", ".build", "--exclude", "replays", "--exclude", "mutation", "--exclude", ".git", ROOT + "/", CHECKROOT + "/"], check=True)
    q = queue.Queue()
    for m in muts:
        q.put(m)
    with open(out, "a") as outf:
        ths = [threading.Thread(target=worker, args=(i, q, outf)) for i in range(args.workers)]
        for t in ths:
            t.start()
        for t in ths:
            t.join()
    shutil.rmtree(CHECKROOT, ignore_errors=True)


if __name__ == "__main__":
    main()
