#!/bin/sh
# Runs the given checks against a scratch worktree of /repo with a patch applied;
# /repo itself, /verif/evidence and /verif/replays are not touched (the run writes
# under /verif/.build/alt-*/).  Usage: tools/try_patch.sh <patch.diff> C04 [C05 …]
# Env: TIER (quick), VERIF_SEED (1), EXTRA (extra ./check flags).
# Prints "<id> exit=<code>" per property: 1 = the check raised a VIOLATION.
set -u
patch=$(readlink -f "$1"); shift
wt=/tmp/wt/try-$$
mkdir -p /tmp/wt
git -C /repo worktree add -q --detach "$wt" HEAD || exit 2
trap 'git -C /repo worktree remove --force "$wt" >/dev/null 2>&1; rm -rf "/verif/.build/alt-tmp_wt_try-$$"' EXIT
git -C "$wt" apply "$patch" || { echo "patch does not apply"; exit 2; }
cd /verif
for p in "$@"; do
  out=$(VERIF_REPO="$wt" VERIF_SEED=${VERIF_SEED:-1} ./check "$p" --tier "${TIER:-quick}" ${EXTRA:-} 2>&1)
  code=$?
  echo "$p exit=$code"
  echo "$out" | grep -E "^VIOLATION|violation |TROUBLE|cases=" | cut -c1-300 | head -8
done
