#!/bin/sh
# Applies a patch to /repo, runs the given checks (quick tier unless TIER is set),
# and always restores /repo.  Usage: tools/try_patch.sh <patch.diff> C04 [C05 …]
# Prints one line per property: "<id> exit=<code>" (1 = the check raised a VIOLATION).
set -u
patch=$(readlink -f "$1"); shift
cd /repo || exit 2
if [ -n "$(git status --porcelain --untracked-files=no)" ]; then echo "/repo is not clean"; exit 2; fi
git apply "$patch" || { echo "patch does not apply"; exit 2; }
trap 'git -C /repo checkout -- . ; git -C /repo clean -fdq -- . >/dev/null 2>&1' EXIT
cd /verif
for p in "$@"; do
  out=$(VERIF_SEED=${VERIF_SEED:-1} ./check "$p" --tier "${TIER:-quick}" ${EXTRA:-} 2>&1)
  code=$?
  echo "$p exit=$code"
  echo "$out" | grep -E "^VIOLATION|violation |TROUBLE" | cut -c1-300 | head -8
done
