// Package env opens one fresh database and one fresh gorm handle per simulated
// run: real gorm, real database/sql, real SQLite, with the simdrv shim under
// database/sql and (optionally) a ConnPool shim above it.
package env

import (
	"context"
	"database/sql"
	"fmt"
	"os"
	"path/filepath"
	"sync"
	"sync/atomic"
	"time"

	_ "github.com/mattn/go-sqlite3"
	"gorm.io/driver/sqlite"
	"gorm.io/gorm"
	"gorm.io/gorm/clause"
	"gorm.io/gorm/logger"
	"gorm.io/gorm/schema"

	"verif/sim/fam"
	"verif/sim/simdrv"
	"verif/sim/simrt"
)

// Dialector is gorm.io/driver/sqlite's dialector with SavePoint/RollbackTo that
// report their error (v1.5.6 swallows it; mysql/postgres dialectors report it).
type Dialector struct {
	sqlite.Dialector
	// Yield, when set, makes SQL generation a sequence of scheduling points: the
	// dialector is called back for every bound variable and every quoted
	// identifier while a statement is being built.
	Yield func(point string)
}

func (d Dialector) BindVarTo(w clause.Writer, stmt *gorm.Statement, v interface{}) {
	if d.Yield != nil {
		d.Yield("dialector:bindvar")
	}
	d.Dialector.BindVarTo(w, stmt, v)
}

func (d Dialector) QuoteTo(w clause.Writer, str string) {
	if d.Yield != nil {
		d.Yield("dialector:quote")
	}
	d.Dialector.QuoteTo(w, str)
}

// YieldLogger is a silent logger whose Trace (called by gorm after every
// operation, with the statement still in hand) is a scheduling point.
type YieldLogger struct {
	logger.Interface
	Yield func(point string)
}

func (l YieldLogger) LogMode(logger.LogLevel) logger.Interface { return l }
func (l YieldLogger) Trace(ctx context.Context, begin time.Time, fc func() (string, int64), err error) {
	if l.Yield != nil {
		l.Yield("logger:trace")
	}
}

func (d Dialector) SavePoint(tx *gorm.DB, name string) error {
	return tx.Exec("SAVEPOINT " + name).Error
}

func (d Dialector) RollbackTo(tx *gorm.DB, name string) error {
	return tx.Exec("ROLLBACK TO SAVEPOINT " + name).Error
}

// Clock is the simulated clock behind Config.NowFunc.
type Clock struct {
	n     int64
	Base  time.Time
	Fixed bool // always return Base (multi-task runs: stored timestamps must not depend on the interleaving)
}

// TotalTicks counts NowFunc calls of all runs of this process (each call advances
// a running simulated clock by one second).
var TotalTicks int64

//go:norace
func (c *Clock) Now() time.Time {
	c.n++
	TotalTicks++
	if c.Fixed {
		return c.Base
	}
	return c.Base.Add(time.Duration(c.n) * time.Second)
}

//go:norace
func (c *Clock) Calls() int64 { return c.n }

type Options struct {
	PrepareStmt              bool
	SkipDefaultTransaction   bool
	DisableNestedTransaction bool
	FullSaveAssociations     bool
	File                     bool // WAL file database (multi-task runs) instead of shared-cache memory
	NoFixture                bool
	FixedClock               bool
	// WrapPool, when set, receives the *sql.DB and returns the ConnPool gorm is given.
	WrapPool func(*sql.DB, *simdrv.Sim) gorm.ConnPool
	Namer    schema.Namer
	Logger   logger.Interface
	// Yield makes the dialector callbacks and the logger scheduling points (multi-task runs).
	Yield func(point string)
}

type Env struct {
	DB    *gorm.DB
	Pool  *sql.DB // the pool under gorm (connections come from simdrv)
	Raw   *sql.DB // side channel for fixtures and dumps; never seen by simdrv
	Drv   *simdrv.Sim
	Clock *Clock
	dir   string
}

var (
	ddlOnce sync.Once
	ddl     []string
	ddlErr  error
	dbSeq   int64
)

// schemaDDL migrates the model family once per process on a scratch database and
// returns the CREATE statements, so that per-run set-up is a handful of Execs.
func schemaDDL() ([]string, error) {
	ddlOnce.Do(func() {
		dsn := fmt.Sprintf("file:simddl%d?mode=memory&cache=shared", os.Getpid())
		db, err := gorm.Open(sqlite.Open(dsn), &gorm.Config{Logger: logger.Discard})
		if err != nil {
			ddlErr = err
			return
		}
		sqlDB, _ := db.DB()
		defer sqlDB.Close()
		if err := db.AutoMigrate(fam.AllModels()...); err != nil {
			ddlErr = err
			return
		}
		rows, err := sqlDB.Query("SELECT sql FROM sqlite_master WHERE sql IS NOT NULL AND name NOT LIKE 'sqlite_%' ORDER BY rowid")
		if err != nil {
			ddlErr = err
			return
		}
		defer rows.Close()
		for rows.Next() {
			var s string
			if err := rows.Scan(&s); err != nil {
				ddlErr = err
				return
			}
			ddl = append(ddl, s)
		}
	})
	return ddl, ddlErr
}

var ShmDir = "/dev/shm"

// Open creates the database, loads the fixture and opens gorm on it.
func Open(o Options) (*Env, error) {
	stmts, err := schemaDDL()
	if err != nil {
		return nil, fmt.Errorf("schema: %w", err)
	}
	e := &Env{Clock: &Clock{Base: time.Date(2024, 1, 1, 0, 0, 0, 0, time.UTC), Fixed: o.FixedClock}}
	n := atomic.AddInt64(&dbSeq, 1)
	var dsn string
	if o.File {
		base := ShmDir
		if _, err := os.Stat(base); err != nil {
			base = os.TempDir()
		}
		e.dir, err = os.MkdirTemp(base, "gormsim")
		if err != nil {
			return nil, err
		}
		dsn = "file:" + filepath.Join(e.dir, "run.db") + "?_journal_mode=WAL&_busy_timeout=1&_synchronous=OFF"
	} else {
		dsn = fmt.Sprintf("file:sim%d_%d?mode=memory&cache=shared&_busy_timeout=1", os.Getpid(), n)
	}
	e.Raw, err = sql.Open("sqlite3", dsn)
	if err != nil {
		return nil, err
	}
	e.Raw.SetMaxOpenConns(1)
	for _, s := range stmts {
		if _, err := e.Raw.Exec(s); err != nil {
			e.Close()
			return nil, fmt.Errorf("ddl: %w", err)
		}
	}
	if !o.NoFixture {
		for _, s := range fam.FixtureSQL {
			if _, err := e.Raw.Exec(s); err != nil {
				e.Close()
				return nil, fmt.Errorf("fixture: %w", err)
			}
		}
	}
	e.Drv = simdrv.New(dsn)
	// single-task default: the goroutine that opens the environment is task 0,
	// every other goroutine (database/sql watchers, gorm's closers) is asynchronous
	owner := simrt.Goid()
	e.Drv.Cur = func() int {
		if simrt.Goid() == owner {
			return 0
		}
		return -1
	}
	e.Drv.Passive = true
	e.Pool = sql.OpenDB(e.Drv.Connector())
	var pool gorm.ConnPool = e.Pool
	if o.WrapPool != nil {
		pool = o.WrapPool(e.Pool, e.Drv)
	}
	lg := o.Logger
	if lg == nil {
		lg = logger.Discard
		if o.Yield != nil {
			lg = YieldLogger{Interface: logger.Discard, Yield: o.Yield}
		}
	}
	cfg := &gorm.Config{
		PrepareStmt:              o.PrepareStmt,
		SkipDefaultTransaction:   o.SkipDefaultTransaction,
		DisableNestedTransaction: o.DisableNestedTransaction,
		FullSaveAssociations:     o.FullSaveAssociations,
		Logger:                   lg,
		NowFunc:                  e.Clock.Now,
	}
	if o.Namer != nil {
		cfg.NamingStrategy = o.Namer
	}
	e.DB, err = gorm.Open(Dialector{Dialector: sqlite.Dialector{Conn: pool}, Yield: o.Yield}, cfg)
	if err != nil {
		e.Close()
		return nil, fmt.Errorf("gorm.Open: %w", err)
	}
	e.Drv.Passive = false
	return e, nil
}

// Dump renders the whole database through the side channel.
func (e *Env) Dump() (string, error) { return fam.Dump(e.Raw) }

func (e *Env) Close() {
	if e.Drv != nil {
		e.Drv.Passive = true
	}
	if e.Pool != nil {
		e.Pool.Close()
	}
	if e.Raw != nil {
		e.Raw.Close()
	}
	if e.dir != "" {
		os.RemoveAll(e.dir)
	}
}
