// Package sched is the seeded task scheduler of the simulator.
//
// Every simulated actor is a real goroutine, but exactly one runs at any time:
// a goroutine proceeds only while it holds the baton and gives it up only at a
// yield point.  At a yield the running goroutine itself takes the next entry of
// the pre-drawn schedule vector, reduces it modulo the number of runnable tasks
// (ordered by task id), wakes that task and sleeps.  A run is therefore one
// fixed sequential interleaving, a pure function of (program, vector, code).
//
// The hand-off uses raw futex(2) calls on words that are touched only inside
// //go:norace functions, so the race detector sees none of it and keeps
// treating the tasks as concurrent (which, logically, they are).  All state
// shared between tasks lives in fixed arrays and scalars accessed only from
// //go:norace functions.
package sched

import (
	"fmt"
	"runtime"
	"sort"
	"strings"
	"sync"
	"sync/atomic"
	"syscall"
	"time"
	"unsafe"

	"verif/sim/simdrv"
	"verif/sim/simrt"
)

const MaxTasks = simdrv.MaxTasks

const (
	stUnused = iota
	stRunnable
	stWaiting
	stDone
)

type traceEnt struct {
	task  uint8
	point uint16
}

type child struct {
	key     interface{}
	gate    *uint32
	goid    int64
	arrived bool
	adopted bool
	name    string
}

type Sched struct {
	n         int
	state     [MaxTasks]uint8
	gates     [MaxTasks]*uint32
	goids     [MaxTasks]int64
	polledAt  [MaxTasks]int64
	waitWhat  [MaxTasks]string
	names     [MaxTasks]string
	cur       int
	progress  int64
	vec       []uint16
	pos       int
	yields    int
	MaxYields int
	switches  int
	waits     int
	aborted   bool
	free      bool // watchdog stage one: every task released, nothing scheduled any more, the run's resources still work
	npend     int
	nstuck    int
	stuckTask [MaxTasks]int
	stuckWhat [MaxTasks]string
	Reason    string // why the run was aborted: "deadlock", "yield limit", "watchdog"
	trace     []traceEnt
	points    [256]string
	npoints   int

	mu      sync.Mutex
	pending []*child
	wg      sync.WaitGroup
	allDone chan struct{}

	// KeyName gives spawned goroutines a stable name (their order must not depend on map iteration).
	KeyName func(key interface{}) string
	// OnAbort is called once when the run is aborted (before parked tasks are released).
	OnAbort func()
	// OnWait is called by a task (holding the baton) when it starts to wait on a channel of the code under test.
	OnWait func(task int, point string)
}

func New(vec []uint16) *Sched { return NewLimit(vec, 5000) }

// NewLimit is New with a different bound on the number of yields per run.
func NewLimit(vec []uint16, maxYields int) *Sched {
	s := &Sched{vec: vec, MaxYields: maxYields, cur: -1}
	s.trace = make([]traceEnt, 0, maxYields+4*MaxTasks)
	s.KeyName = func(key interface{}) string { return fmt.Sprintf("%p", key) }
	return s
}

// GenVector draws a schedule vector of n entries in which roughly density
// percent are context switches (non-zero).
func GenVector(intn func(int) int, n, density int) []uint16 {
	v := make([]uint16, n)
	for i := range v {
		if intn(100) < density {
			v[i] = uint16(1 + intn(63))
		}
	}
	return v
}

// ---------------------------------------------------------------- futex gates

const (
	futexWait = 0
	futexWake = 1
)

//go:norace
func park(g *uint32) {
	for *g == 0 {
		syscall.Syscall6(syscall.SYS_FUTEX, uintptr(unsafe.Pointer(g)), futexWait, 0, 0, 0, 0)
	}
	*g = 0
}

//go:norace
func wake(g *uint32) {
	*g = 1
	syscall.Syscall6(syscall.SYS_FUTEX, uintptr(unsafe.Pointer(g)), futexWake, 1, 0, 0, 0)
}

// ---------------------------------------------------------------- identification

// Cur returns the index of the task the calling goroutine is, or -1 when the
// caller is not the baton holder (an asynchronous goroutine).
//
//go:norace
func (s *Sched) Cur() int {
	c := s.cur
	if c < 0 || s.aborted || s.free {
		return -1
	}
	if simrt.Goid() == s.goids[c] {
		return c
	}
	return -1
}

//go:norace
func (s *Sched) pointID(p string) uint16 {
	for i := 0; i < s.npoints; i++ {
		if s.points[i] == p {
			return uint16(i)
		}
	}
	if s.npoints < len(s.points) {
		s.points[s.npoints] = p
		s.npoints++
		return uint16(s.npoints - 1)
	}
	return uint16(len(s.points) - 1)
}

//go:norace
func (s *Sched) note(task int, point string) {
	if len(s.trace) < cap(s.trace) {
		s.trace = append(s.trace, traceEnt{uint8(task), s.pointID(point)})
	}
}

// ---------------------------------------------------------------- scheduling step

// adopt turns goroutines announced with Spawn since the last scheduling step
// into tasks, ordered by their stable names.
func (s *Sched) adopt() {
	// no announced goroutine waiting for adoption: take no lock at all (a mutex
	// taken at every scheduling step would order every task's past before every
	// other task's future and blind the race detector)
	if !s.takePending() {
		return
	}
	s.mu.Lock()
	var pend []*child
	for _, c := range s.pending {
		if !c.adopted {
			c.adopted = true
			pend = append(pend, c)
		}
	}
	s.mu.Unlock()
	if len(pend) == 0 {
		return
	}
	deadline := time.Now().Add(10 * time.Second)
	for {
		s.mu.Lock()
		all := true
		for _, c := range pend {
			if !c.arrived {
				all = false
			}
		}
		s.mu.Unlock()
		if all || time.Now().After(deadline) {
			break
		}
		time.Sleep(20 * time.Microsecond)
	}
	for _, c := range pend {
		c.name = s.KeyName(c.key)
	}
	sort.SliceStable(pend, func(i, j int) bool { return pend[i].name < pend[j].name })
	for _, c := range pend {
		s.addChild(c)
	}
}

//go:norace
func (s *Sched) addChild(c *child) {
	if s.n >= MaxTasks || !c.arrived {
		return
	}
	i := s.n
	s.n++
	s.state[i] = stRunnable
	s.gates[i] = c.gate
	s.goids[i] = c.goid
	s.names[i] = "closer:" + c.name
	s.note(i, "spawned")
}

//go:norace
func (s *Sched) takePending() bool {
	if s.npend == 0 {
		return false
	}
	s.npend = 0
	return true
}

//go:norace
func (s *Sched) notePending() { s.npend++ }

// pick chooses the next task: >=0 task index, -1 all done, -2 deadlock.
//
//go:norace
func (s *Sched) pick() int {
	var cand [MaxTasks]int
	k := 0
	waiting := false
	for i := 0; i < s.n; i++ {
		switch s.state[i] {
		case stRunnable:
			cand[k] = i
			k++
		case stWaiting:
			waiting = true
			if s.polledAt[i] < s.progress {
				cand[k] = i
				k++
			}
		}
	}
	if k == 0 {
		if waiting {
			return -2
		}
		return -1
	}
	choice := 0
	if s.pos < len(s.vec) {
		choice = int(s.vec[s.pos])
	}
	s.pos++
	// entry 0 = the current task goes on (so an all-zero or exhausted vector runs
	// every task to its next blocking point in task order); entry c > 0 = switch
	// to the c-th other candidate
	cur := s.cur
	curIdx := -1
	for i := 0; i < k; i++ {
		if cand[i] == cur {
			curIdx = i
		}
	}
	if curIdx < 0 {
		return cand[choice%k]
	}
	if choice == 0 || k == 1 {
		return cur
	}
	o := (choice - 1) % (k - 1)
	if o >= curIdx {
		o++
	}
	return cand[o]
}

// step is executed by the baton holder me: choose the next task and hand over.
// It returns false when the run was aborted.
func (s *Sched) step(me int, finishing bool) bool {
	s.adopt()
	return s.step2(me, finishing)
}

//go:norace
func (s *Sched) step2(me int, finishing bool) bool {
	if s.aborted || s.free {
		return false
	}
	s.yields++
	if s.yields > s.MaxYields {
		s.abort("yield limit")
		return false
	}
	next := s.pick()
	switch {
	case next == -2:
		s.abort("deadlock")
		return false
	case next == -1:
		return true // nothing left to run (only possible when finishing)
	case next == me:
		return true
	}
	s.switches++
	s.cur = next
	wake(s.gates[next])
	if !finishing {
		park(s.gates[me])
	}
	return !s.aborted
}

//go:norace
func (s *Sched) abort(reason string) {
	if s.aborted {
		return
	}
	s.aborted = true
	s.Reason = reason
	// remember who waited for what before the parked tasks are released
	s.nstuck = 0
	for i := 0; i < s.n; i++ {
		if s.state[i] == stWaiting && s.nstuck < len(s.stuckTask) {
			s.stuckTask[s.nstuck], s.stuckWhat[s.nstuck] = i, s.waitWhat[i]
			s.nstuck++
		}
	}
	if s.OnAbort != nil {
		s.OnAbort()
	}
	for i := 0; i < s.n; i++ {
		if s.state[i] != stDone && s.gates[i] != nil {
			wake(s.gates[i])
		}
	}
}

// Aborted reports whether the run was aborted, and why.
//
//go:norace
func (s *Sched) Aborted() (bool, string) { return s.aborted, s.Reason }

// Yield is a scheduling point of the baton holder.
//
//go:norace
func (s *Sched) Yield(point string) {
	if s.aborted {
		return
	}
	me := s.Cur()
	if me < 0 {
		return
	}
	s.progress++
	s.note(me, point)
	s.step(me, false)
}

// Wait parks the calling task until the close-only channel ch is closed.  Only
// the waiting task polls its channel; it is rescheduled only after some other
// task made progress since its last failed poll.
//
//go:norace
func (s *Sched) Wait(ch <-chan struct{}, point string) {
	me := s.Cur()
	if me < 0 {
		return
	}
	first := true
	for !s.aborted {
		select {
		case <-ch:
			s.state[me] = stRunnable
			if !first {
				s.progress++
			}
			return
		default:
		}
		if first {
			s.waits++
			s.note(me, "wait:"+point)
			first = false
			if s.OnWait != nil {
				s.OnWait(me, point)
			}
		}
		s.state[me] = stWaiting
		s.polledAt[me] = s.progress
		s.waitWhat[me] = point
		if !s.step(me, false) {
			break
		}
	}
	s.state[me] = stRunnable
}

// WaitUntil parks the calling task until cond() holds; false = aborted.
//
//go:norace
func (s *Sched) WaitUntil(what string, cond func() bool) bool {
	me := s.Cur()
	if me < 0 {
		return !s.aborted
	}
	first := true
	for !s.aborted {
		if cond() {
			s.state[me] = stRunnable
			if !first {
				s.progress++
			}
			return true
		}
		if first {
			s.waits++
			s.note(me, "wait:"+what)
			first = false
		}
		s.state[me] = stWaiting
		s.polledAt[me] = s.progress
		s.waitWhat[me] = what
		if !s.step(me, false) {
			break
		}
	}
	s.state[me] = stRunnable
	for s.free && !s.aborted { // released by the watchdog: wait for real
		if cond() {
			return true
		}
		time.Sleep(200 * time.Microsecond)
	}
	return false
}

// ---------------------------------------------------------------- goroutines started by the code under test

// Spawn reserves a task for a goroutine the baton holder is about to start.
func (s *Sched) Spawn(key interface{}) {
	if s.Cur() < 0 {
		return
	}
	s.mu.Lock()
	s.pending = append(s.pending, &child{key: key})
	s.mu.Unlock()
	s.notePending()
	s.wg.Add(1)
}

// GoStart is called first by a goroutine announced with Spawn; it parks until scheduled.
func (s *Sched) GoStart(key interface{}) {
	g := new(uint32)
	id := simrt.Goid()
	var mine *child
	s.mu.Lock()
	for _, c := range s.pending {
		if c.key == key && !c.arrived && c.gate == nil {
			c.gate, c.goid = g, id
			mine = c
			break
		}
	}
	if mine != nil {
		mine.arrived = true
	}
	s.mu.Unlock()
	if mine == nil {
		return // not announced (simulator not in control): run freely
	}
	if s.isFree() {
		s.mu.Lock()
		if !mine.adopted {
			mine.adopted = true
			s.wg.Done()
		}
		s.mu.Unlock()
		return
	}
	park(g)
}

// GoEnd is called last by a goroutine that went through GoStart.
func (s *Sched) GoEnd() {
	me := s.Cur()
	if me < 0 {
		if s.isTaskGoroutine() {
			s.wg.Done() // aborted run: just account for the goroutine
		}
		return
	}
	s.finish(me)
}

//go:norace
func (s *Sched) isTaskGoroutine() bool {
	id := simrt.Goid()
	for i := 0; i < s.n; i++ {
		if s.goids[i] == id {
			return true
		}
	}
	return false
}

//go:norace
func (s *Sched) markDone(me int) {
	s.state[me] = stDone
	s.progress++
	s.note(me, "end")
}

func (s *Sched) finish(me int) {
	s.markDone(me)
	s.step(me, true)
	s.wg.Done()
}

// ---------------------------------------------------------------- running

//go:norace
func (s *Sched) addTask(name string) int {
	i := s.n
	s.n++
	s.state[i] = stRunnable
	s.gates[i] = new(uint32)
	s.names[i] = name
	return i
}

//go:norace
func (s *Sched) setGoid(i int) { s.goids[i] = simrt.Goid() }

//go:norace
func (s *Sched) gate(i int) *uint32 { return s.gates[i] }

//go:norace
func (s *Sched) start() bool {
	next := s.pick()
	if next < 0 {
		return false
	}
	s.cur = next
	wake(s.gates[next])
	return true
}

// Result summarises one scheduled run.
type Result struct {
	Aborted    bool
	Reason     string
	Yields     int
	Switches   int
	Waits      int
	Tasks      int
	Trace      []string // "task:point" in execution order
	SwitchHash string   // the context-switch sequence, as a string of task ids
	Stuck      []string // on deadlock: what every unfinished task was waiting for
	Leaked     bool     // goroutines were left blocked (deadlock)
	// Blocked, after a watchdog abort: goroutines that are blocked on a real
	// mutex or channel inside gorm code, not parked by the scheduler ("<gorm
	// function>: <wait reason>").  The scheduler parks tasks with no lock held,
	// so on a correct tree the running task never waits for a real lock for long.
	Blocked []string
}

// Run executes the task bodies under the scheduler and returns when all tasks
// (including goroutines spawned by the code under test) have finished, the run
// was aborted, or the wall-clock watchdog fired.
func (s *Sched) Run(names []string, bodies []func(), watchdog time.Duration) *Result {
	started := make(chan struct{}, len(bodies))
	for i := range bodies {
		idx := s.addTask(names[i])
		s.wg.Add(1)
		body := bodies[i]
		go func() {
			s.setGoid(idx)
			started <- struct{}{}
			park(s.gate(idx))
			if ab, _ := s.Aborted(); !ab {
				body()
			}
			if ab, _ := s.Aborted(); ab || s.isFree() {
				s.wg.Done()
				return
			}
			s.finish(idx)
		}()
	}
	for range bodies {
		<-started
	}
	s.allDone = make(chan struct{})
	go func() { s.wg.Wait(); close(s.allDone) }()
	s.start()
	res := &Result{}
	select {
	case <-s.allDone:
	case <-time.After(watchdog):
		res.Blocked = BlockedInGorm()
		if len(res.Blocked) > 0 {
			// A goroutine sits on a real lock.  Either nobody will ever release it, or its
			// holder is a task the scheduler has parked (code that holds a lock across a
			// scheduling point: slow under this scheduler, not stuck).  Decide by letting
			// every task run freely for a while: stuck = blocked now and still blocked then.
			s.freeRun()
			select {
			case <-s.allDone:
				res.Blocked = nil
			case <-time.After(FreeRunGrace):
				still := map[string]int{}
				for _, b := range BlockedInGorm() {
					still[b]++
				}
				var keep []string
				for _, b := range res.Blocked {
					if still[b] > 0 {
						still[b]--
						keep = append(keep, b)
					}
				}
				res.Blocked = keep
			}
		}
		s.abortFromOutside("watchdog")
	}
	if ab, _ := s.Aborted(); ab {
		select {
		case <-s.allDone:
		case <-time.After(500 * time.Millisecond):
			res.Leaked = true
		}
	}
	s.collect(res)
	return res
}

//go:norace
func (s *Sched) abortFromOutside(reason string) { s.abort(reason) }

//go:norace
func (s *Sched) isFree() bool { return s.free }

// freeRun releases every parked task without tearing anything down: from here on
// the tasks run side by side for real (no schedule, results worthless) - the only
// question left is whether they can finish.
//
//go:norace
func (s *Sched) freeRun() {
	s.free = true
	atomic.AddInt64(&FreeRuns, 1)
	for i := 0; i < s.n; i++ {
		if s.state[i] != stDone && s.gates[i] != nil {
			wake(s.gates[i])
		}
	}
	s.mu.Lock()
	for _, c := range s.pending {
		if c.arrived && !c.adopted && c.gate != nil {
			c.adopted = true
			wake(c.gate)
			s.wg.Done()
		}
	}
	s.mu.Unlock()
}

//go:norace
func (s *Sched) collect(res *Result) {
	res.Aborted, res.Reason = s.aborted, s.Reason
	res.Yields, res.Switches, res.Waits, res.Tasks = s.yields, s.switches, s.waits, s.n
	last := -1
	sw := make([]byte, 0, len(s.trace))
	for _, e := range s.trace {
		res.Trace = append(res.Trace, fmt.Sprintf("%d:%s", e.task, s.points[e.point]))
		if int(e.task) != last {
			sw = append(sw, 'a'+e.task%26, '0'+e.task/26)
			last = int(e.task)
		}
	}
	res.SwitchHash = string(sw)
	for k := 0; k < s.nstuck; k++ {
		i := s.stuckTask[k]
		res.Stuck = append(res.Stuck, fmt.Sprintf("task %d (%s) waits for %s", i, s.names[i], s.stuckWhat[k]))
	}
}

// FreeRuns counts the runs of this process that ended in a free-run phase (their
// race-detector reports are void: the shims' one-at-a-time assumptions do not hold there).
var FreeRuns int64

// FreeRunGrace is how long released tasks get to finish before a goroutine that is
// still blocked inside gorm counts as stuck.
var FreeRunGrace = 3 * time.Second

// BlockedInGorm lists the goroutines that wait on a real lock or channel with a
// gorm frame on their stack and are not parked by the scheduler.
func BlockedInGorm() []string {
	buf := make([]byte, 4<<20)
	buf = buf[:runtime.Stack(buf, true)]
	var out []string
	for _, g := range strings.Split(string(buf), "\n\n") {
		lines := strings.Split(g, "\n")
		if len(lines) < 2 || !strings.HasPrefix(lines[0], "goroutine ") {
			continue
		}
		reason := ""
		if i, j := strings.Index(lines[0], "["), strings.Index(lines[0], "]"); i >= 0 && j > i {
			reason = strings.SplitN(lines[0][i+1:j], ",", 2)[0]
		}
		switch reason {
		case "sync.Mutex.Lock", "sync.RWMutex.Lock", "sync.RWMutex.RLock", "semacquire", "chan receive", "chan send":
		default:
			continue
		}
		if strings.Contains(g, "verif/sim/sched.park") || !strings.Contains(g, "gorm.io/gorm") {
			continue
		}
		fn := ""
		for _, l := range lines[1:] {
			if strings.HasPrefix(l, "gorm.io/gorm") {
				fn = l
				if k := strings.LastIndex(fn, "("); k > 0 {
					fn = fn[:k]
				}
				break
			}
		}
		out = append(out, fn+": "+reason)
	}
	sort.Strings(out)
	return out
}
