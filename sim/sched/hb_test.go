package sched

import (
	"testing"
	"time"
)

var shared [8]int

// Does the baton hand-off create a happens-before edge for the race detector?
func TestHandOffInvisible(t *testing.T) {
	for variant := 0; variant < 3; variant++ {
		vec := []uint16{1, 1, 1, 1, 1, 1, 1, 1, 1, 1, 1, 1}
		s := New(vec)
		free := true
		bodies := []func(){
			func() {
				shared[variant]++ // A
				s.Yield("a1")
				shared[variant+3]++
				free = false
				s.Yield("a2")
				free = true
				s.Yield("a3")
			},
			func() {
				s.Yield("b0")
				switch variant {
				case 0:
					shared[variant]++ // right after a switch
				case 1:
					s.Yield("b1")
					shared[variant]++ // one more yield later
				case 2:
					s.WaitUntil("free", func() bool { return free })
					shared[variant]++
				}
				shared[variant+3]++
			},
		}
		r := s.Run([]string{"a", "b"}, bodies, 5*time.Second)
		if r.Aborted {
			t.Fatalf("aborted %v", r.Reason)
		}
	}
}
