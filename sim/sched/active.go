package sched

import (
	"sync"

	"gorm.io/gorm/utils/simhook"
)

var (
	active  *Sched
	install sync.Once
)

// Active returns the scheduler of the run in progress (nil between runs).
//
//go:norace
func Active() *Sched { return active }

// SetActive installs s as the scheduler the simhook sites in gorm talk to.  The
// simhook function variables are written once per process; which scheduler they
// reach is a word the race detector does not see.
//
//go:norace
func SetActive(s *Sched) {
	install.Do(func() {
		simhook.YieldFn = func(p string) {
			if a := Active(); a != nil {
				a.Yield(p)
			}
		}
		simhook.WaitFn = func(ch <-chan struct{}, p string) {
			if a := Active(); a != nil {
				a.Wait(ch, p)
			}
		}
		simhook.SpawnFn = func(k interface{}) {
			if a := Active(); a != nil {
				a.Spawn(k)
			}
		}
		simhook.GoStartFn = func(k interface{}) {
			if a := Active(); a != nil {
				a.GoStart(k)
			}
		}
		simhook.GoEndFn = func() {
			if a := Active(); a != nil {
				a.GoEnd()
			}
		}
	})
	active = s
}
