// Package simdrv is the database/sql/driver shim that sits between database/sql
// and the real go-sqlite3 driver.  It records every driver call (with the tag of
// the context it received), injects the planned faults, and never parks: all
// scheduling decisions are taken above database/sql (package simpool) or inside
// gorm (package simhook).
//
// Race-detector discipline: state shared by simulated tasks is touched only from
// //go:norace functions and consists of fixed arrays and scalars; every task
// appends events to its own buffer.  Goroutines that are not simulated tasks
// (database/sql's awaitDone, gorm's `go stmt.Close()`) are physically concurrent
// with the baton holder and use a separate, mutex-protected buffer.
package simdrv

import (
	"context"
	"database/sql"
	"database/sql/driver"
	"fmt"
	"io"
	"reflect"
	"strings"
	"sync"

	sqlite3 "github.com/mattn/go-sqlite3"
	"gorm.io/gorm"
)

// MaxTasks bounds the number of per-task buffers.
const MaxTasks = 72

// Event is one recorded driver call.
type Event struct {
	Seq   int64    `json:"seq"`            // global order among task events; -1 for asynchronous events
	Task  int      `json:"task"`           // task index, -1 = asynchronous goroutine
	Conn  int      `json:"conn"`           // driver connection number
	Kind  string   `json:"kind"`           // conn_open conn_close begin commit rollback prepare exec query next rows_close stmt_close
	SQL   string   `json:"sql,omitempty"`  // statement text (savepoint names reduced to sp#)
	Args  []string `json:"args,omitempty"` // rendered bound values
	Ctx   string   `json:"ctx,omitempty"`  // context tag seen by the call
	Err   string   `json:"err,omitempty"`  // error returned to database/sql
	Fault string   `json:"fault,omitempty"`
	Stmt  bool     `json:"stmt,omitempty"` // issued through a prepared driver statement
	StmtN int      `json:"stmtn,omitempty"`
	Rows  int      `json:"rows,omitempty"` // rows_close: rows delivered
}

// Fault is one planned fault, addressed by (Kind, SQL, Occ): the Occ-th (0-based)
// driver call of that kind with that statement text.
type Fault struct {
	ID    int    `json:"id"`
	Kind  string `json:"kind"`          // begin commit rollback prepare exec query next
	SQL   string `json:"sql,omitempty"` // "" matches any text (begin/commit/rollback have none)
	Occ   int    `json:"occ"`
	Type  string `json:"type"`            // err applied_err bad_conn ack_lost rows_err
	Burst int    `json:"burst,omitempty"` // bad_conn: number of consecutive matching calls that fail (>=1)
	Row   int    `json:"row,omitempty"`   // rows_err: Next fails when Row rows were already delivered
	// Class makes the injected error wrap a well-known error value (what errors.Is
	// sees): "" plain, deadline, canceled, txdone, eof.  Not used with bad_conn.
	Class string `json:"class,omitempty"`

	seen      int
	Fired     int `json:"fired"`
	remaining int
}

// FaultErr is the error value an injected fault returns.
type FaultErr struct {
	ID    int
	What  string
	Class string
}

// ClassError maps an error class name to the value an injected error wraps.
func ClassError(class string) error {
	switch class {
	case "deadline":
		return context.DeadlineExceeded
	case "canceled":
		return context.Canceled
	case "txdone":
		return sql.ErrTxDone
	case "eof":
		return io.ErrUnexpectedEOF
	case "notfound": // hook errors only: from the driver it would simply mean "no row"
		return gorm.ErrRecordNotFound
	}
	return nil
}

// Classes are the error classes a fault plan may draw from.
var Classes = []string{"deadline", "canceled", "txdone", "eof"}

func (e *FaultErr) Unwrap() error { return ClassError(e.Class) }

func (e *FaultErr) Error() string { return fmt.Sprintf("simfault#%d(%s)", e.ID, e.What) }

// Marker is the substring that identifies injected fault number id in an error text.
func Marker(id int) string { return fmt.Sprintf("simfault#%d(", id) }

// Sim is the per-run driver state.  Create with New, hand Connector() to sql.OpenDB.
type Sim struct {
	DSN    string
	inner  *sqlite3.SQLiteDriver
	CtxTag func(context.Context) string
	// Cur returns the index of the simulated task the calling goroutine is, or -1.
	Cur func() int

	bufs    [MaxTasks][]Event
	async   []Event
	amu     sync.Mutex
	seq     int64
	nconn   int
	nstmt   int
	faults  []*Fault
	errs    []*FaultErr
	Passive bool // when set, record nothing and inject nothing (used while a run is being torn down)
}

func New(dsn string) *Sim {
	s := &Sim{DSN: dsn, inner: &sqlite3.SQLiteDriver{}}
	s.CtxTag = func(context.Context) string { return "" }
	s.Cur = func() int { return 0 }
	return s
}

// SetFaults installs the fault plan (before the run starts).
func (s *Sim) SetFaults(fs []*Fault) {
	s.faults = fs
	s.errs = make([]*FaultErr, len(fs))
	for i, f := range fs {
		f.seen, f.Fired = 0, 0
		f.remaining = f.Burst
		if f.remaining < 1 {
			f.remaining = 1
		}
		s.errs[i] = &FaultErr{ID: f.ID, What: f.Kind + " " + f.Type, Class: f.Class}
	}
}

// FaultError returns the error value fault i of the plan returns.
func (s *Sim) FaultError(i int) *FaultErr { return s.errs[i] }

// match decides whether the call (kind, sql) is hit by a planned fault.
//
//go:norace
func (s *Sim) match(kind, sql string) (*Fault, error) {
	if s.Passive {
		return nil, nil
	}
	for i, f := range s.faults {
		if f.Kind != kind || (f.SQL != "" && f.SQL != sql) {
			continue
		}
		n := f.seen
		f.seen++
		if n < f.Occ || f.remaining <= 0 {
			continue
		}
		if f.Type == "rows_err" {
			// handled by the Rows wrapper; the query itself succeeds
			f.remaining = 0
			return f, nil
		}
		f.remaining--
		f.Fired++
		if f.Type == "bad_conn" {
			return f, driver.ErrBadConn
		}
		return f, s.errs[i]
	}
	return nil, nil
}

//go:norace
func (s *Sim) nextSeq() int64 { s.seq++; return s.seq }

//go:norace
func (s *Sim) newConnNo() int { s.nconn++; return s.nconn }

//go:norace
func (s *Sim) newStmtNo() int { s.nstmt++; return s.nstmt }

//go:norace
func (s *Sim) record(ev Event) {
	if s.Passive {
		return
	}
	t := s.Cur()
	ev.Task = t
	if t < 0 || t >= MaxTasks {
		ev.Task = -1
		ev.Seq = -1
		s.amu.Lock()
		s.async = append(s.async, ev)
		s.amu.Unlock()
		return
	}
	ev.Seq = s.nextSeq()
	s.bufs[t] = append(s.bufs[t], ev)
}

// Seq returns the current value of the global event sequence counter.
//
//go:norace
func (s *Sim) Seq() int64 { return s.seq }

// Tick advances and returns the global event sequence (used by other layers so
// that all recorded events share one total order).
//
//go:norace
func (s *Sim) Tick() int64 { return s.nextSeq() }

// Events merges the per-task buffers in sequence order, followed by the
// asynchronous events.  Call only after all tasks are joined.
func (s *Sim) Events() []Event {
	var all []Event
	idx := make([]int, MaxTasks)
	for {
		best := -1
		for t := 0; t < MaxTasks; t++ {
			if idx[t] < len(s.bufs[t]) && (best < 0 || s.bufs[t][idx[t]].Seq < s.bufs[best][idx[best]].Seq) {
				best = t
			}
		}
		if best < 0 {
			break
		}
		all = append(all, s.bufs[best][idx[best]])
		idx[best]++
	}
	s.amu.Lock()
	all = append(all, s.async...)
	s.amu.Unlock()
	return all
}

// AsyncCount returns how many events of a kind asynchronous goroutines recorded so far.
func (s *Sim) AsyncCount(kind string) int {
	s.amu.Lock()
	defer s.amu.Unlock()
	n := 0
	for _, e := range s.async {
		if e.Kind == kind {
			n++
		}
	}
	return n
}

// Counts summarises open resources from the recorded events.
type Counts struct{ OpenConns, OpenTx, OpenStmts, OpenRows int }

func CountOpen(evs []Event) Counts {
	var c Counts
	for _, e := range evs {
		ok := e.Err == ""
		switch e.Kind {
		case "conn_open":
			if ok {
				c.OpenConns++
			}
		case "conn_close":
			c.OpenConns--
		case "begin":
			if ok {
				c.OpenTx++
			}
		case "commit", "rollback":
			c.OpenTx--
		case "prepare":
			if ok {
				c.OpenStmts++
			}
		case "stmt_close":
			c.OpenStmts--
		case "query":
			if ok {
				c.OpenRows++
			}
		case "rows_close":
			c.OpenRows--
		}
	}
	return c
}

// NormSQL reduces generated savepoint names (gorm names them "sp" + something
// unique per block: a random number today) to a fixed token.
func NormSQL(q string) string {
	for _, p := range []string{"SAVEPOINT sp", "ROLLBACK TO SAVEPOINT sp"} {
		if strings.HasPrefix(q, p) && len(q) > len(p) && !strings.ContainsAny(q[len(p):], " ;") {
			return p + "#"
		}
	}
	return q
}

func renderArgs(args []driver.NamedValue) []string {
	if len(args) == 0 {
		return nil
	}
	out := make([]string, len(args))
	for i, a := range args {
		switch v := a.Value.(type) {
		case []byte:
			out[i] = fmt.Sprintf("x'%x'", v)
		case string:
			out[i] = fmt.Sprintf("%q", v)
		case nil:
			out[i] = "NULL"
		default:
			out[i] = fmt.Sprintf("%v", v)
		}
	}
	return out
}

func errStr(err error) string {
	if err == nil {
		return ""
	}
	return err.Error()
}

// ---------------------------------------------------------------- connector

type connector struct{ s *Sim }

func (s *Sim) Connector() driver.Connector { return connector{s} }

func (c connector) Driver() driver.Driver { return c.s.inner }

func (c connector) Connect(ctx context.Context) (driver.Conn, error) {
	in, err := c.s.inner.Open(c.s.DSN)
	if err != nil {
		return nil, err
	}
	cn := &conn{s: c.s, in: in.(*sqlite3.SQLiteConn), no: c.s.newConnNo()}
	c.s.record(Event{Conn: cn.no, Kind: "conn_open"})
	return cn, nil
}

// ---------------------------------------------------------------- conn

type conn struct {
	s   *Sim
	in  *sqlite3.SQLiteConn
	no  int
	bad bool
}

var (
	_ driver.ConnBeginTx        = (*conn)(nil)
	_ driver.ConnPrepareContext = (*conn)(nil)
	_ driver.ExecerContext      = (*conn)(nil)
	_ driver.QueryerContext     = (*conn)(nil)
	_ driver.Pinger             = (*conn)(nil)
	_ driver.Validator          = (*conn)(nil)
	_ driver.SessionResetter    = (*conn)(nil)
)

func (c *conn) Prepare(q string) (driver.Stmt, error) {
	return c.PrepareContext(context.Background(), q)
}
func (c *conn) Begin() (driver.Tx, error) {
	return c.BeginTx(context.Background(), driver.TxOptions{})
}

func (c *conn) Close() error {
	err := c.in.Close()
	c.s.record(Event{Conn: c.no, Kind: "conn_close", Err: errStr(err)})
	return err
}

func (c *conn) IsValid() bool { return !c.bad }

func (c *conn) ResetSession(ctx context.Context) error {
	if c.bad {
		return driver.ErrBadConn
	}
	return nil
}

func (c *conn) Ping(ctx context.Context) error { return c.in.Ping(ctx) }

func (c *conn) fail(f *Fault, err error) error {
	if err == driver.ErrBadConn {
		c.bad = true
	}
	return err
}

func (c *conn) BeginTx(ctx context.Context, opts driver.TxOptions) (driver.Tx, error) {
	ev := Event{Conn: c.no, Kind: "begin", Ctx: c.s.CtxTag(ctx)}
	if f, ferr := c.s.match("begin", ""); ferr != nil {
		ev.Fault, ev.Err = f.Type, ferr.Error()
		c.s.record(ev)
		return nil, c.fail(f, ferr)
	}
	in, err := c.in.BeginTx(ctx, opts)
	ev.Err = errStr(err)
	c.s.record(ev)
	if err != nil {
		return nil, err
	}
	return &tx{c: c, in: in}, nil
}

func (c *conn) PrepareContext(ctx context.Context, q string) (driver.Stmt, error) {
	nq := NormSQL(q)
	ev := Event{Conn: c.no, Kind: "prepare", SQL: nq, Ctx: c.s.CtxTag(ctx)}
	if f, ferr := c.s.match("prepare", nq); ferr != nil {
		ev.Fault, ev.Err = f.Type, ferr.Error()
		c.s.record(ev)
		return nil, c.fail(f, ferr)
	}
	in, err := c.in.PrepareContext(ctx, q)
	ev.Err = errStr(err)
	if err != nil {
		c.s.record(ev)
		return nil, err
	}
	st := &stmt{c: c, in: in.(*sqlite3.SQLiteStmt), q: nq, no: c.s.newStmtNo()}
	ev.StmtN = st.no
	c.s.record(ev)
	return st, nil
}

func (c *conn) ExecContext(ctx context.Context, q string, args []driver.NamedValue) (driver.Result, error) {
	return c.s.doExec(c, nil, ctx, q, args)
}

func (c *conn) QueryContext(ctx context.Context, q string, args []driver.NamedValue) (driver.Rows, error) {
	return c.s.doQuery(c, nil, ctx, q, args)
}

func (s *Sim) doExec(c *conn, st *stmt, ctx context.Context, q string, args []driver.NamedValue) (driver.Result, error) {
	nq := NormSQL(q)
	ev := Event{Conn: c.no, Kind: "exec", SQL: nq, Args: renderArgs(args), Ctx: s.CtxTag(ctx), Stmt: st != nil}
	if st != nil {
		ev.StmtN = st.no
	}
	f, ferr := s.match("exec", nq)
	if ferr != nil && f.Type != "applied_err" {
		ev.Fault, ev.Err = f.Type, ferr.Error()
		s.record(ev)
		return nil, c.fail(f, ferr)
	}
	var res driver.Result
	var err error
	if st != nil {
		res, err = st.in.ExecContext(ctx, args)
	} else {
		res, err = c.in.ExecContext(ctx, q, args)
	}
	if ferr != nil { // applied_err: executed, acknowledgement lost
		ev.Fault, ev.Err = f.Type, ferr.Error()
		s.record(ev)
		return nil, ferr
	}
	ev.Err = errStr(err)
	s.record(ev)
	return res, err
}

func (s *Sim) doQuery(c *conn, st *stmt, ctx context.Context, q string, args []driver.NamedValue) (driver.Rows, error) {
	nq := NormSQL(q)
	ev := Event{Conn: c.no, Kind: "query", SQL: nq, Args: renderArgs(args), Ctx: s.CtxTag(ctx), Stmt: st != nil}
	if st != nil {
		ev.StmtN = st.no
	}
	f, ferr := s.match("query", nq)
	if ferr != nil {
		ev.Fault, ev.Err = f.Type, ferr.Error()
		s.record(ev)
		return nil, c.fail(f, ferr)
	}
	var in driver.Rows
	var err error
	if st != nil {
		in, err = st.in.QueryContext(ctx, args)
	} else {
		in, err = c.in.QueryContext(ctx, q, args)
	}
	ev.Err = errStr(err)
	if err != nil {
		s.record(ev)
		return nil, err
	}
	r := &rows{c: c, in: in.(*sqlite3.SQLiteRows), q: nq}
	// a rows_err fault addressed at this query (kind "next")
	if nf, _ := s.match("next", nq); nf != nil {
		r.fault = nf
		ev.Fault = "rows_err(armed)"
	}
	s.record(ev)
	return r, nil
}

// ---------------------------------------------------------------- tx

type tx struct {
	c  *conn
	in driver.Tx
}

func (t *tx) Commit() error {
	ev := Event{Conn: t.c.no, Kind: "commit"}
	if f, ferr := t.c.s.match("commit", ""); ferr != nil {
		ev.Fault, ev.Err = f.Type, ferr.Error()
		if f.Type == "ack_lost" {
			if err := t.in.Commit(); err != nil {
				ev.Err += " / real commit: " + err.Error()
			}
		} else {
			_ = t.in.Rollback()
		}
		t.c.s.record(ev)
		return t.c.fail(f, ferr)
	}
	err := t.in.Commit()
	ev.Err = errStr(err)
	t.c.s.record(ev)
	return err
}

func (t *tx) Rollback() error {
	ev := Event{Conn: t.c.no, Kind: "rollback"}
	err := t.in.Rollback()
	if f, ferr := t.c.s.match("rollback", ""); ferr != nil {
		// the rollback is performed; only its acknowledgement is lost
		ev.Fault, ev.Err = f.Type, ferr.Error()
		t.c.s.record(ev)
		return t.c.fail(f, ferr)
	}
	ev.Err = errStr(err)
	t.c.s.record(ev)
	return err
}

// ---------------------------------------------------------------- stmt

type stmt struct {
	c  *conn
	in *sqlite3.SQLiteStmt
	q  string
	no int
}

var (
	_ driver.StmtExecContext  = (*stmt)(nil)
	_ driver.StmtQueryContext = (*stmt)(nil)
)

func (s *stmt) Close() error {
	err := s.in.Close()
	s.c.s.record(Event{Conn: s.c.no, Kind: "stmt_close", SQL: s.q, StmtN: s.no, Err: errStr(err)})
	return err
}
func (s *stmt) NumInput() int { return s.in.NumInput() }
func (s *stmt) Exec(args []driver.Value) (driver.Result, error) {
	return nil, fmt.Errorf("simdrv: legacy Exec not supported")
}
func (s *stmt) Query(args []driver.Value) (driver.Rows, error) {
	return nil, fmt.Errorf("simdrv: legacy Query not supported")
}
func (s *stmt) ExecContext(ctx context.Context, args []driver.NamedValue) (driver.Result, error) {
	return s.c.s.doExec(s.c, s, ctx, s.q, args)
}
func (s *stmt) QueryContext(ctx context.Context, args []driver.NamedValue) (driver.Rows, error) {
	return s.c.s.doQuery(s.c, s, ctx, s.q, args)
}

// ---------------------------------------------------------------- rows

type rows struct {
	c     *conn
	in    *sqlite3.SQLiteRows
	q     string
	n     int
	fault *Fault
	done  bool
}

var (
	_ driver.RowsColumnTypeDatabaseTypeName = (*rows)(nil)
	_ driver.RowsColumnTypeNullable         = (*rows)(nil)
	_ driver.RowsColumnTypeScanType         = (*rows)(nil)
)

func (r *rows) Columns() []string { return r.in.Columns() }
func (r *rows) Close() error {
	err := r.in.Close()
	if !r.done {
		r.done = true
		r.c.s.record(Event{Conn: r.c.no, Kind: "rows_close", SQL: r.q, Rows: r.n, Err: errStr(err)})
	}
	return err
}

//go:norace
func (r *rows) hit() (*Fault, error) {
	f := r.fault
	if f == nil || f.Fired > 0 || r.n != f.Row {
		return nil, nil
	}
	f.Fired++
	for i, g := range r.c.s.faults {
		if g == f {
			return f, r.c.s.errs[i]
		}
	}
	return nil, nil
}

func (r *rows) Next(dest []driver.Value) error {
	if f, ferr := r.hit(); ferr != nil {
		r.c.s.record(Event{Conn: r.c.no, Kind: "next", SQL: r.q, Rows: r.n, Fault: f.Type, Err: ferr.Error()})
		return ferr
	}
	err := r.in.Next(dest)
	if err == nil {
		r.n++
	} else if err != io.EOF {
		r.c.s.record(Event{Conn: r.c.no, Kind: "next", SQL: r.q, Rows: r.n, Err: err.Error()})
	}
	return err
}
func (r *rows) ColumnTypeDatabaseTypeName(i int) string { return r.in.ColumnTypeDatabaseTypeName(i) }
func (r *rows) ColumnTypeNullable(i int) (bool, bool)   { return r.in.ColumnTypeNullable(i) }
func (r *rows) ColumnTypeScanType(i int) reflect.Type   { return r.in.ColumnTypeScanType(i) }
