// Package c05: each single write operation is all-or-nothing under any failure
// and reports it.  One task; a fault-free run of the operation lists its fault
// sites (every driver call, every row of every result set, every hook
// invocation); the operation is then re-run on a fresh database once per site
// with that one fault injected.
package c05

import (
	"context"
	"database/sql"
	"encoding/json"
	"errors"
	"fmt"
	"hash/crc32"
	"strings"

	"verif/sim/core"
	"verif/sim/env"
	"verif/sim/fam"
	"verif/sim/ops"
	"verif/sim/simdrv"
	"verif/sim/simpool"

	"gorm.io/gorm"
)

type Case struct {
	Op         ops.WOp     `json:"op"`
	Prepare    bool        `json:"prepare_stmt"`
	Prior      int         `json:"prior,omitempty"`       // derived from the same handle and abandoned before the operation: 1 Session{SkipDefaultTransaction}, 2 ToSQL, 3 Session{DryRun}, 4 Session{NewDB, SkipHooks, SkipDefaultTransaction}
	HookWrites bool        `json:"hook_writes,omitempty"` // before-hooks write a marker row through the *gorm.DB they are given
	ErrClass   string      `json:"err_class,omitempty"`   // injected errors wrap this well-known error (deadline, canceled, txdone, eof)
	PoolShim   bool        `json:"pool_shim"`             // gorm is opened on a ConnPool wrapper (ConnPoolBeginner path) instead of *sql.DB
	MaxSites   int         `json:"max_sites"`             // 0 = every site
	Pick       int64       `json:"pick_seed"`             // seeds the site sample
	Only       []ops.Fault `json:"only,omitempty"`        // replay/shrink: run exactly these faults
}

type Prop struct{}

func (Prop) ID() string    { return "C05" }
func (Prop) Level() string { return "fault_enumeration" }
func (Prop) Rule() string {
	return "a case is one write operation over a seeded record graph; it is run fault-free to list its fault sites (each driver BEGIN/statement/COMMIT/Prepare x {error, error-after-apply, ErrBadConn x burst, lost COMMIT ack}, each delivered row x iterator error, each hook invocation x {error, panic recovered by the caller}, each call into the connection pool x cancellation of the operation's context just before it; per case the injected errors are plain or wrap one well-known error: context.DeadlineExceeded, context.Canceled, sql.ErrTxDone, io.ErrUnexpectedEOF) and re-run on a fresh database once per site (quick: a seeded sample of sites). An evaluation is one simulated run; it is non-trivial when its fault fired; distinct = distinct hash of (driver event sequence, hook sequence, outcome)"
}
func (Prop) Assumptions() []string {
	return []string{
		"SQLite's own transaction semantics (a rolled back transaction leaves no effect)",
		"an ErrBadConn is only injected instead of executing a statement, never after it was applied (driver contract)",
		"gorm.io/driver/sqlite v1.5.6 and mattn/go-sqlite3 v1.14.24 are the real dialector/engine; network and disk are not modelled",
	}
}

func (Prop) Gen(r *core.Rand, tier string) interface{} {
	c := &Case{Op: ops.GenWOp(r, ops.WriteKinds), Prepare: r.Chance(30), PoolShim: r.Chance(30), Pick: r.Int63()}
	if tier != "thorough" {
		c.MaxSites = 25
	}
	if r.Chance(50) {
		c.ErrClass = r.Pick(simdrv.Classes)
	}
	c.HookWrites = r.Chance(30)
	if r.Chance(25) {
		c.Prior = r.Range(1, 4)
	}
	return c
}

func (Prop) Decode(raw json.RawMessage) (interface{}, error) {
	c := &Case{}
	return c, json.Unmarshal(raw, c)
}

func (Prop) Shrink(ci interface{}) []interface{} {
	c := ci.(*Case)
	var out []interface{}
	for _, op := range ops.ShrinkWOp(c.Op) {
		v := *c
		v.Op = op
		// a smaller operation has different sites: re-enumerate
		v.Only = nil
		v.MaxSites = 0
		out = append(out, &v)
	}
	if c.Prepare {
		v := *c
		v.Prepare = false
		v.Only = nil
		v.MaxSites = 0
		out = append(out, &v)
	}
	if c.Prior != 0 {
		v := *c
		v.Prior = 0
		v.Only = nil
		v.MaxSites = 0
		out = append(out, &v)
	}
	if c.HookWrites {
		v := *c
		v.HookWrites = false
		v.Only = nil
		v.MaxSites = 0
		out = append(out, &v)
	}
	if c.ErrClass != "" {
		v := *c
		v.ErrClass = ""
		v.Only = nil
		v.MaxSites = 0
		out = append(out, &v)
	}
	if c.PoolShim {
		v := *c
		v.PoolShim = false
		v.Only = nil
		v.MaxSites = 0
		out = append(out, &v)
	}
	return out
}

func (p Prop) exec(c *Case, f *ops.Fault) (*ops.SingleRun, error) {
	// fixed clock: hooks that write rows consume clock readings in the (map-iteration)
	// order gorm visits associations, which must not reach the stored timestamps
	o := env.Options{PrepareStmt: c.Prepare, FixedClock: c.HookWrites}
	if c.PoolShim {
		o.WrapPool = func(db *sql.DB, drv *simdrv.Sim) gorm.ConnPool { return simpool.New(db, drv) }
	}
	return ops.RunSingle(o, f, c.hookAction(), func(e *env.Env) ops.Result {
		c.derivePrior(e.DB)
		return c.Op.Exec(e.DB)
	})
}

// prior derives other sessions from the handle the operation is about to use
// and abandons them: their options are theirs alone.
func (c *Case) derivePrior(db *gorm.DB) {
	switch c.Prior {
	case 1:
		_ = db.Session(&gorm.Session{SkipDefaultTransaction: true})
	case 2:
		_ = db.ToSQL(func(tx *gorm.DB) *gorm.DB {
			var n []fam.Note
			return tx.Where("rank > ?", 0).Find(&n)
		})
	case 3:
		_ = db.Session(&gorm.Session{DryRun: true})
	case 4:
		_ = db.Session(&gorm.Session{NewDB: true, SkipHooks: true, SkipDefaultTransaction: true})
	}
}

// hookAction: with HookWrites, every before-hook writes a marker row through
// the handle it was given; the row belongs to the operation and must share its fate.
func (c *Case) hookAction() ops.HookAction {
	if !c.HookWrites {
		return nil
	}
	occ := map[string]int{}
	return func(hc fam.HookCall, ev *ops.HookEvent) error {
		if !strings.HasPrefix(hc.Hook, "Before") || hc.Tx == nil {
			return nil
		}
		// key and text independent of the order in which gorm visits associations
		k := hc.Model + "-" + hc.Hook
		occ[k]++
		id := uint(1000 + crc32.ChecksumIEEE([]byte(k))%1000000*100 + uint32(occ[k]))
		if err := hc.Tx.Create(&fam.Marker{ID: id, Text: fmt.Sprintf("marker-%s-%d", k, occ[k])}).Error; err != nil {
			return fmt.Errorf("marker write through the hook's tx failed: %w", err)
		}
		return nil
	}
}

// execCtx runs the operation from a context-bound handle on the ConnPool shim;
// with cf set the context is cancelled just before the cf.K-th pool call.  It
// returns the kinds of the pool calls made.
func (p Prop) execCtx(c *Case, cf *ops.CancelFault) (*ops.SingleRun, []string, error) {
	var pool *simpool.Pool
	ctx, cancel := context.WithCancel(context.Background())
	defer cancel()
	// fixed clock: hooks that write rows consume clock readings in the (map-iteration)
	// order gorm visits associations, which must not reach the stored timestamps
	o := env.Options{PrepareStmt: c.Prepare, FixedClock: c.HookWrites}
	o.WrapPool = func(db *sql.DB, drv *simdrv.Sim) gorm.ConnPool {
		pool = simpool.New(db, drv)
		return pool
	}
	first := 0
	sr, err := ops.RunSingle(o, nil, c.hookAction(), func(e *env.Env) ops.Result {
		first = pool.Calls()
		if cf != nil {
			pool.Cancel = cancel
			pool.CancelAt = first + cf.K
		}
		c.derivePrior(e.DB)
		res := c.Op.Exec(e.DB.WithContext(ctx))
		pool.CancelAt = -1
		return res
	})
	if err != nil {
		return nil, nil, err
	}
	if cf != nil {
		cf.Fired = pool.CancelSeq != 0
	}
	pts := pool.Points
	if first <= len(pts) {
		pts = pts[first:]
	}
	return sr, pts, nil
}

// txCount is the number of transactions the (fault-free) run committed.
func txCount(sr *ops.SingleRun) int {
	n := 0
	for _, ev := range sr.Events {
		if ev.Kind == "commit" && ev.Err == "" {
			n++
		}
	}
	return n
}

func (p Prop) Run(ci interface{}, focus *core.Violation) *core.Outcome {
	c := ci.(*Case)
	out := &core.Outcome{}
	base, err := p.exec(c, nil)
	if err != nil {
		out.Trouble = "fault-free run: " + err.Error()
		return out
	}
	out.Runs++
	out.Sample = map[string]interface{}{"op": c.Op, "prepare_stmt": c.Prepare, "fault_free_driver_calls": len(base.Events), "fault_free_hook_calls": len(base.Hooks)}
	baseHash := core.Hash(base.TraceHashParts()...)
	out.TraceHash = baseHash
	// viol reports a violation; it returns true when the run must stop.
	viol := func(class, key, detail string, sr *ops.SingleRun, f *ops.Fault) bool {
		v := &core.Violation{Class: class, Key: key, Detail: detail}
		h := core.Hash(sr.TraceHashParts()...)
		if f != nil {
			h = ops.FaultedHash(baseHash, f.HashName(), sr, fmt.Sprint(sr.D1 == base.D1))
		}
		if !out.Report(v, focus, h) {
			return false
		}
		if f != nil {
			c.Only = []ops.Fault{*f}
		}
		return true
	}
	if v := base.HungViolation(); v != nil {
		viol(v.Class, v.Key+"|no_fault", v.Detail, base, nil)
		return out
	}
	if l := base.Leak(); l != "" {
		if viol("leak", c.Op.Kind+"|no_fault", "fault-free run left resources behind: "+l, base, nil) {
			return out
		}
	}
	if base.DumpErr != nil {
		out.Trouble = "dump: " + base.DumpErr.Error()
		return out
	}
	if base.Res.Err != nil {
		// a genuine failure (e.g. a key collision): must also leave nothing behind
		out.Count("fault_free_op_failed", 1)
		if base.D1 != base.D0 {
			viol("partial_state", c.Op.Kind+"|genuine_error", "the operation failed with "+base.Res.Err.Error()+" but changed the database:\n"+diff(base.D0, base.D1), base, nil)
		}
		return out
	}
	var faults []ops.Fault
	if c.Only != nil {
		faults = c.Only
	} else {
		id := 0
		faults = append(ops.DriverSites(base.Events, &id), ops.HookSites(base.Hooks, &id)...)
		faults = append(faults, ops.HookPanicSites(base.Hooks, &id)...) // the hook panics and the caller recovers
		// cancellation sites: one per pool call of a fault-free run from a context-bound handle
		probe, points, err := p.execCtx(c, nil)
		if err != nil {
			out.Trouble = "context-bound fault-free run: " + err.Error()
			return out
		}
		out.Runs++
		if probe.Res.Err != nil || probe.D1 != base.D1 {
			if viol("nondeterministic", c.Op.Kind+"|context_bound", fmt.Sprintf("the same operation from a context-bound handle on the pool shim differs from the fault-free run (err=%v):\n%s", probe.Res.Err, diff(base.D1, probe.D1)), probe, nil) {
				return out
			}
		} else {
			// the last calls of an operation are the interesting ones (COMMIT): list all, at most 40
			for k, pt := range points {
				if k >= 40 {
					break
				}
				id++
				faults = append(faults, ops.Fault{Cancel: &ops.CancelFault{ID: id, K: k, At: pt}})
			}
		}
		ops.SortFaults(faults)
		ops.ApplyClass(faults, c.ErrClass)
		out.Count("sites_total", int64(len(faults)))
		if c.MaxSites > 0 && len(faults) > c.MaxSites {
			r := core.NewRand(c.Pick)
			perm := r.Perm(len(faults))[:c.MaxSites]
			picked := make([]ops.Fault, 0, c.MaxSites)
			for _, i := range perm {
				picked = append(picked, faults[i])
			}
			faults = picked
		}
	}
	seen := map[string]bool{}
	baseTx := txCount(base)
	out.Count(fmt.Sprintf("ops_with_%d_implicit_transactions", baseTx), 1)
	for i := range faults {
		f := &faults[i]
		var sr *ops.SingleRun
		var err error
		if f.Cancel != nil {
			sr, _, err = p.execCtx(c, f.Cancel)
		} else {
			sr, err = p.exec(c, f)
		}
		if err != nil {
			out.Trouble = "faulted run: " + err.Error()
			return out
		}
		out.Runs++
		if v := sr.HungViolation(); v != nil {
			viol(v.Class, v.Key+"|"+f.Short(), fmt.Sprintf("with [%s]: %s", f, v.Detail), sr, f)
			return out
		}
		fired := f.Fired(sr)
		kind := "hook_err"
		if f.Hook != nil && f.Hook.Panic {
			kind = "hook_panic"
		}
		if f.Drv != nil {
			kind = f.Drv.Kind + "_" + f.Drv.Type
		} else if f.Cancel != nil {
			kind = "cancel_" + f.Cancel.At
		}
		if fired {
			out.Count("fired:"+kind, 1)
			h := ops.FaultedHash(baseHash, f.HashName(), sr, fmt.Sprint(sr.D1 == base.D1))
			if !seen[h] {
				seen[h] = true
				out.Hashes = append(out.Hashes, h)
			}
		} else {
			out.Count("not_fired:"+kind, 1)
		}
		key := fmt.Sprintf("%s|implicit_transactions=%d|%s", c.Op.Kind, baseTx, f.Short())
		if l := sr.Leak(); l != "" {
			if viol("leak", key, fmt.Sprintf("after fault [%s]: %s", f, l), sr, f) {
				return out
			}
			continue
		}
		if sr.DumpErr != nil {
			out.Trouble = "dump after fault: " + sr.DumpErr.Error()
			return out
		}
		e := sr.Res.Err
		isBadConn := f.Drv != nil && f.Drv.Type == "bad_conn"
		switch {
		case !fired:
			if e != nil || sr.D1 != base.D1 {
				if viol("nondeterministic", key, fmt.Sprintf("fault [%s] did not fire but the run differs from the fault-free run (err=%v)", f, e), sr, f) {
					return out
				}
				continue
			}
		case isBadConn && e == nil:
			out.Count("absorbed_by_database_sql", 1)
			if sr.D1 != base.D1 {
				if viol("partial_state", key, fmt.Sprintf("fault [%s] was retried away (Error=nil) but the database differs from the complete result:\n%s", f, diff(base.D1, sr.D1)), sr, f) {
					return out
				}
				continue
			}
		case e == nil:
			if viol("swallowed_error", key, fmt.Sprintf("fault [%s] fired but the operation returned Error=nil", f), sr, f) {
				return out
			}
			continue
		default:
			out.Count("delivered:"+kind, 1)
			carried := strings.Contains(e.Error(), f.Marker())
			if f.Hook != nil && f.Hook.Panic {
				// the hook's panic must reach the caller with its own value
				carried = sr.Panicked != nil && sr.Panicked.ID == f.Hook.ID
			}
			if f.Cancel != nil && errors.Is(e, sql.ErrTxDone) {
				// database/sql's watcher rolled the cancelled transaction back before COMMIT/ROLLBACK was called
				carried = true
			}
			if !isBadConn && !carried {
				if viol("error_not_reported", key, fmt.Sprintf("fault [%s] fired; returned Error %q does not carry it", f, e.Error()), sr, f) {
					return out
				}
				continue
			}
			// the failure itself is returned: the caller can find it with errors.As/Is.  (gorm
			// joins a second error to the first with "%v; %w", which keeps only the last one
			// findable - such joined errors are not judged.)
			if carried && !strings.Contains(e.Error(), "; ") {
				found, judged := false, false
				var fe *simdrv.FaultErr
				var he *ops.HookErr
				switch {
				case f.Drv != nil && (f.Drv.Type == "err" || f.Drv.Type == "applied_err" || f.Drv.Type == "rows_err"):
					judged = true
					found = errors.As(e, &fe) && fe.ID == f.Drv.ID
				case f.Hook != nil && !f.Hook.Panic:
					judged = true
					found = errors.As(e, &he) && he.ID == f.Hook.ID
				}
				if judged && !found {
					if viol("error_not_wrapped", key, fmt.Sprintf("fault [%s] fired; the returned Error %q names it but does not wrap it: errors.As/errors.Is cannot find the failure", f, e.Error()), sr, f) {
						return out
					}
					continue
				}
			}
			okD1 := f.Drv != nil && f.Drv.Kind == "commit" && f.Drv.Type == "ack_lost"
			if sr.D1 != sr.D0 && !(okD1 && sr.D1 == base.D1) {
				if viol("partial_state", key, fmt.Sprintf("fault [%s] fired, Error=%q, but the database is neither unchanged nor complete:\n%s", f, e.Error(), diff(sr.D0, sr.D1)), sr, f) {
					return out
				}
				continue
			}
		}
	}
	return out
}

// diff lists the lines that differ between two dumps.
func diff(a, b string) string {
	am := map[string]int{}
	for _, l := range strings.Split(a, "\n") {
		am[l]++
	}
	var sb strings.Builder
	bm := map[string]int{}
	for _, l := range strings.Split(b, "\n") {
		bm[l]++
	}
	for _, l := range strings.Split(a, "\n") {
		if bm[l] == 0 {
			sb.WriteString("  - " + l + "\n")
		}
	}
	for _, l := range strings.Split(b, "\n") {
		if am[l] == 0 {
			sb.WriteString("  + " + l + "\n")
		}
	}
	return sb.String()
}

// DebugParts returns the rendered trace of the fault-free run (scratch tooling).
func DebugParts(ci interface{}) []string {
	sr, err := Prop{}.exec(ci.(*Case), nil)
	if err != nil {
		return []string{"error: " + err.Error()}
	}
	return sr.TraceHashParts()
}
