// Package c07: one shared handle used from many goroutines at once, including
// the very first use of every model type.
//
// G tasks share one *gorm.DB; the seeded scheduler decides every interleaving
// at the yield points (pool calls, model hooks, naming-strategy calls inside
// schema parsing, simhook sites inside gorm).  Oracles: each task's results and
// the final rows equal those of the same programs run serially; no deadlock; no
// panic; under the race build, no data race report with a gorm frame.
package c07

import (
	"database/sql"
	"encoding/json"
	"errors"
	"fmt"
	"os"
	"sort"
	"strings"
	"sync/atomic"
	"time"

	"gorm.io/gorm"
	"gorm.io/gorm/schema"

	"verif/sim/core"
	"verif/sim/env"
	"verif/sim/fam"
	"verif/sim/sched"
	"verif/sim/simdrv"
	"verif/sim/simnamer"
	"verif/sim/simpool"
)

type Op struct {
	Kind string `json:"kind"`
	J    int    `json:"j"` // which of the task's own rows
	X    int    `json:"x,omitempty"`
}

type Case struct {
	Tasks   [][]Op   `json:"tasks"`
	Cold    bool     `json:"cold"`
	Prepare bool     `json:"prepare_stmt"`
	Vec     []uint16 `json:"schedule"`
}

type Prop struct{}

func (Prop) ID() string    { return "C07" }
func (Prop) Level() string { return "exploration" }
func (Prop) Rule() string {
	return "a case is G task programs (Create with nested associations, First/Find, Preload, Joins, Update(s), Delete, a Transaction block, Association Append/Find/Count, an unrelated model) on disjoint rows through one *gorm.DB, cold or warm schema cache, PrepareStmt on/off, plus a schedule vector; one evaluation = one scheduled run (exactly one interleaving) compared with the serial run of the same programs; non-trivial = at least one context switch; distinct = distinct context-switch sequence (hash of the sequence of task ids at yield points)"
}
func (Prop) Assumptions() []string {
	return []string{
		"write transactions of different tasks are serialised by a simulated single-writer token (SQLite has one writer); everything else interleaves",
		"nothing parks inside database/sql or the driver: two driver calls are never interleaved with each other",
		"the race detector's verdict is 'a report with an access in gorm code appears'; its bounded access history can miss races whose accesses are far apart",
		"timestamps come from a fixed simulated clock so that stored rows do not depend on the interleaving",
	}
}

var opKinds = []string{"create", "create", "create_full", "create_batches", "update_birthday", "first", "find", "preload", "preload_all", "joins", "update", "updates", "delete", "delete_pet", "tx", "tx_fail", "assoc_append", "assoc_find", "assoc_count", "note", "note_find", "count", "save", "gadget", "gadget", "dry_gadget", "dry_gadget", "dry_create", "dry_update", "dry_find", "dry_delete",
	"assoc_replace", "assoc_clear", "assoc_delete", "assoc_replace_account", "assoc_delete_company", "assoc_replace_langs", "cond_dry", "preload_nested", "club_first", "cond_setting"}

func (Prop) Gen(r *core.Rand, tier string) interface{} {
	g := 2 + r.Intn(3)
	maxOps := 5
	if tier == "thorough" {
		switch x := r.Intn(10); {
		case x < 5:
			g = 2 + r.Intn(7)
		case x < 8:
			g = 8 + r.Intn(9)
		default:
			g = 16 + r.Intn(17)
		}
		maxOps = 8
		if g > 12 {
			maxOps = 4
		}
	}
	c := &Case{Cold: r.Chance(50), Prepare: r.Chance(30)}
	// swarm: most cases draw all their operations from a small palette, so that
	// several tasks run the same kind of operation at the same time
	palette := opKinds
	if r.Chance(70) {
		palette = nil
		for _, i := range r.Perm(len(opKinds))[:1+r.Intn(4)] {
			palette = append(palette, opKinds[i])
		}
	}
	for t := 0; t < g; t++ {
		var prog []Op
		if r.Chance(60) {
			// most programs first store rows of their own, so that the reads, preloads,
			// updates and association calls that follow have something to work on
			prog = append(prog, Op{Kind: []string{"create", "create_full"}[r.Intn(2)], J: r.Intn(2)})
		}
		n := 1 + r.Intn(maxOps)
		for i := 0; i < n; i++ {
			prog = append(prog, Op{Kind: r.Pick(palette), J: r.Intn(3), X: r.Intn(50)})
		}
		c.Tasks = append(c.Tasks, prog)
	}
	if c.Prepare && r.Chance(70) {
		// prepared-statement scenario: the first preparation of a statement text
		// happens inside some tasks' transactions while other tasks run the same
		// text outside any transaction
		for t := range c.Tasks {
			if t%2 == 0 {
				c.Tasks[t] = append([]Op{{Kind: "tx", J: 0, X: 1}}, c.Tasks[t]...)
			} else {
				c.Tasks[t] = append([]Op{{Kind: "first", J: 0}}, c.Tasks[t]...)
			}
		}
	}
	if r.Chance(10) {
		// every task sets a pointer-typed time field of a row of its own
		for t := range c.Tasks {
			c.Tasks[t] = append([]Op{{Kind: "create", J: 0}, {Kind: "update_birthday", J: 0, X: t}}, c.Tasks[t]...)
		}
	}
	if r.Chance(12) {
		// note scenario: every task stores and reads back rows of the model whose
		// field type is its own serializer (scan values come from a per-field pool)
		for t := range c.Tasks {
			c.Tasks[t] = append([]Op{{Kind: "note", X: t}, {Kind: "note_find"}}, c.Tasks[t]...)
		}
	}
	if r.Chance(20) {
		// club scenario: some tasks run nested preloads over User while others make first
		// use of a model that has many Users
		for t := range c.Tasks {
			if t%2 == 0 {
				c.Tasks[t] = append([]Op{{Kind: "create_full", J: 0}, {Kind: "preload_nested"}}, c.Tasks[t]...)
			} else {
				c.Tasks[t] = append([]Op{{Kind: "club_first", X: t}}, c.Tasks[t]...)
			}
		}
	}
	if r.Chance(12) {
		// conditioned-handle scenario: every task builds statements from one shared handle that carries conditions
		for t := range c.Tasks {
			c.Tasks[t] = append([]Op{{Kind: "cond_dry", X: t}, {Kind: "cond_setting", X: t}, {Kind: "cond_dry", X: t + 1}, {Kind: "cond_setting", X: t + 1}}, c.Tasks[t]...)
		}
	}
	if r.Chance(12) {
		// keeper scenario: some tasks join things with their (soft-deleted) keeper
		// while others make first use of the keeper model
		for t := range c.Tasks {
			if t%2 == 0 {
				c.Tasks[t] = append([]Op{{Kind: "keeper_setup"}, {Kind: "joins_keeper"}}, c.Tasks[t]...)
			} else {
				c.Tasks[t] = append([]Op{{Kind: "keeper_find"}}, c.Tasks[t]...)
			}
		}
	}
	// schedule: entry 0 = keep running the current task; the density of context
	// switches is drawn per case (sparse vectors let tasks make progress between
	// switches, dense ones interleave at almost every yield)
	n := 300 + r.Intn(2500)
	density := []int{1, 3, 8, 20, 50}[r.Intn(5)]
	if r.Chance(8) {
		n = 0 // run-to-completion schedule
	}
	c.Vec = sched.GenVector(r.Intn, n, density)
	return c
}

func (Prop) Decode(raw json.RawMessage) (interface{}, error) {
	c := &Case{}
	return c, json.Unmarshal(raw, c)
}

func (Prop) Shrink(ci interface{}) []interface{} {
	c := ci.(*Case)
	var out []interface{}
	// drop a task
	if len(c.Tasks) > 2 {
		for t := range c.Tasks {
			v := *c
			v.Tasks = append(append([][]Op{}, c.Tasks[:t]...), c.Tasks[t+1:]...)
			out = append(out, &v)
		}
	}
	// drop an op
	for t := range c.Tasks {
		for i := range c.Tasks[t] {
			if len(c.Tasks[t]) == 1 {
				continue
			}
			v := *c
			v.Tasks = append([][]Op{}, c.Tasks...)
			v.Tasks[t] = append(append([]Op{}, c.Tasks[t][:i]...), c.Tasks[t][i+1:]...)
			out = append(out, &v)
		}
	}
	// shorten / simplify the schedule
	if len(c.Vec) > 0 {
		v := *c
		v.Vec = c.Vec[:len(c.Vec)/2]
		out = append(out, &v)
		v2 := *c
		v2.Vec = append([]uint16{}, c.Vec...)
		changed := false
		for i := range v2.Vec {
			if v2.Vec[i] != 0 && i%2 == 0 {
				v2.Vec[i] = 0
				changed = true
			}
		}
		if changed {
			out = append(out, &v2)
		}
	}
	if c.Prepare {
		v := *c
		v.Prepare = false
		out = append(out, &v)
	}
	return out
}

// ---------------------------------------------------------------- task programs

func uid(t, j int) uint { return uint(100000*(t+1) + j*100) }

func userFor(t, j int, full bool) *fam.User {
	id := uid(t, j)
	cid := uint(100000*(t+1) + 90000 + j)
	u := &fam.User{ID: id, Name: fmt.Sprintf("t%du%d", t, j), Age: 20 + j,
		Company: &fam.Company{ID: cid, Name: fmt.Sprintf("t%dc%d", t, j)},
		Pets:    []*fam.Pet{{ID: id + 1, Name: "p1"}, {ID: id + 2, Name: "p2", Toy: &fam.Toy{ID: id + 12, Name: "pt"}}},
	}
	if full {
		u.Account = &fam.Account{ID: id + 20, Number: fmt.Sprintf("acc%d", id)}
		u.Toys = []fam.Toy{{ID: id + 10, Name: "toy"}}
		u.Languages = []fam.Language{{Code: fmt.Sprintf("L%d_%d", t, j), Name: "lang"}}
		u.Manager = &fam.User{ID: id + 50, Name: "mgr"}
		u.Friends = []*fam.User{{ID: id + 60, Name: "friend"}}
	}
	return u
}

func renderUser(u *fam.User) string {
	var b strings.Builder
	fmt.Fprintf(&b, "U{%d %s %d c=%v m=%v del=%v", u.ID, u.Name, u.Age, deref(u.CompanyID), deref(u.ManagerID), u.DeletedAt.Valid)
	if u.Company != nil {
		fmt.Fprintf(&b, " Company{%d %s}", u.Company.ID, u.Company.Name)
	}
	if u.Manager != nil {
		fmt.Fprintf(&b, " Manager{%d %s}", u.Manager.ID, u.Manager.Name)
	}
	if u.Account != nil {
		fmt.Fprintf(&b, " Account{%d %s}", u.Account.ID, u.Account.Number)
	}
	for _, p := range u.Pets {
		fmt.Fprintf(&b, " Pet{%d %s", p.ID, p.Name)
		if p.Toy != nil {
			fmt.Fprintf(&b, " Toy{%d %s}", p.Toy.ID, p.Toy.Name)
		}
		b.WriteString("}")
	}
	for _, t := range u.Toys {
		fmt.Fprintf(&b, " Toy{%d %s %s}", t.ID, t.Name, t.OwnerType)
	}
	for _, l := range u.Languages {
		fmt.Fprintf(&b, " Lang{%s}", l.Code)
	}
	for _, f := range u.Friends {
		fmt.Fprintf(&b, " Friend{%d}", f.ID)
	}
	for _, f := range u.Team {
		fmt.Fprintf(&b, " Team{%d}", f.ID)
	}
	b.WriteString("}")
	return b.String()
}

func deref(p *uint) interface{} {
	if p == nil {
		return nil
	}
	return *p
}

func renderUsers(us []fam.User) string {
	parts := make([]string, len(us))
	for i := range us {
		parts[i] = renderUser(&us[i])
	}
	return strings.Join(parts, " ")
}

func out(tx *gorm.DB, v string) string {
	e := ""
	if tx.Error != nil {
		e = tx.Error.Error()
	}
	return fmt.Sprintf("err=%q rows=%d %s", e, tx.RowsAffected, v)
}

func drySQL(tx *gorm.DB) string {
	return tx.Statement.SQL.String() + " | " + fmt.Sprint(tx.Statement.Vars...)
}

// condHandle is a reusable handle that carries conditions (the first a lone Or), shared
// by every task of the current run: chains that add no condition of their own build their
// SQL over the handle's own clause values.
var condHandle *gorm.DB

const settingKey = "verif:tenant"

// setHandle is a shared handle that carries a setting (and nothing else).
var setHandle *gorm.DB

func mkCond(db *gorm.DB) *gorm.DB {
	// (a pagination base: model, conditions and an order; Count is called on it directly)
	setHandle = db.Set(settingKey, "handle").Session(&gorm.Session{})
	return db.Model(&fam.Note{}).Or("rank = ?", -7).Where("body <> ?", "nobody").Where("rank >= ?", 0).Order("id").Session(&gorm.Session{})
}

// runOp executes one operation of task t and renders what the caller observes.
func runOp(db *gorm.DB, t int, op Op) string {
	lo, hi := uid(t, 0), uid(t, 3)+99
	id := uid(t, op.J)
	switch op.Kind {
	case "create":
		u := userFor(t, op.J, false)
		return out(db.Create(u), renderUser(u))
	case "create_full":
		u := userFor(t, op.J, true)
		return out(db.Create(u), renderUser(u))
	case "update_birthday":
		// a time.Time value for a *time.Time field
		bd := time.Date(1990, time.Month(1+op.X%12), 1+t, 0, 0, 0, 0, time.UTC)
		u := &fam.User{ID: id}
		tx := db.Model(u).Update("birthday", bd)
		got := "<nil>"
		if u.Birthday != nil {
			got = u.Birthday.Format("2006-01-02")
		}
		return out(tx, got)
	case "create_batches":
		// three records in batches of two: CreateInBatches wraps the batches in one transaction
		us := []fam.User{*userFor(t, 0, false), *userFor(t, 1, false), *userFor(t, 2, false)}
		for i := range us {
			us[i].ID += 30 // rows of their own
			us[i].Company, us[i].Pets = nil, nil
		}
		return out(db.CreateInBatches(&us, 2), renderUsers(us))
	case "save":
		u := userFor(t, op.J, false)
		u.Age = 60 + op.X
		return out(db.Save(u), renderUser(u))
	case "first":
		var u fam.User
		return out(db.First(&u, id), renderUser(&u))
	case "find":
		var us []fam.User
		return out(db.Where("id BETWEEN ? AND ?", lo, hi).Find(&us), renderUsers(us))
	case "preload":
		var us []fam.User
		return out(db.Preload("Pets.Toy").Preload("Company").Where("id BETWEEN ? AND ?", lo, hi).Find(&us), renderUsers(us))
	case "preload_nested":
		// paths that visit the User model twice
		var us []fam.User
		return out(db.Preload("Manager.Manager").Preload("Friends.Manager").Where("id BETWEEN ? AND ?", lo, hi).Find(&us), renderUsers(us))
	case "club_first":
		var cs []fam.Club
		tx := db.Session(&gorm.Session{DryRun: true, SkipDefaultTransaction: true}).Where("id = ?", op.X).Find(&cs)
		return out(tx, drySQL(tx))
	case "preload_all":
		var us []fam.User
		return out(db.Preload("Pets").Preload("Toys").Preload("Account").Preload("Languages").Preload("Friends").Preload("Manager").Preload("Team").Where("id BETWEEN ? AND ?", lo, hi).Find(&us), renderUsers(us))
	case "joins":
		var us []fam.User
		return out(db.Joins("Company").Where("users.id BETWEEN ? AND ?", lo, hi).Find(&us), renderUsers(us))
	case "count":
		var n int64
		tx := db.Model(&fam.User{}).Where("id BETWEEN ? AND ?", lo, hi).Count(&n)
		return out(tx, fmt.Sprint(n))
	case "update":
		return out(db.Model(&fam.User{ID: id}).Update("name", fmt.Sprintf("n%d", op.X)), "")
	case "updates":
		return out(db.Model(&fam.User{ID: id}).Updates(map[string]interface{}{"name": fmt.Sprintf("m%d", op.X), "age": op.X}), "")
	case "delete":
		return out(db.Delete(&fam.User{ID: id}), "")
	case "delete_pet":
		return out(db.Delete(&fam.Pet{ID: id + 1}), "")
	case "keeper_setup":
		// a soft-deleted keeper and a thing that still points at it, written without touching the models
		err := db.Transaction(func(tx *gorm.DB) error {
			if err := tx.Exec("INSERT OR REPLACE INTO keepers(id,name,deleted_at) VALUES (?,?,?)", id+50, "gone", "2020-03-01 00:00:00+00:00").Error; err != nil {
				return err
			}
			return tx.Exec("INSERT OR REPLACE INTO things(id,name,keeper_id) VALUES (?,?,?)", id+51, "orphan", id+50).Error
		})
		return fmt.Sprintf("err=%v", err)
	case "joins_keeper":
		var ts []fam.Thing
		tx := db.Joins("Keeper").Where("things.id BETWEEN ? AND ?", lo, hi).Order("things.id").Find(&ts)
		var parts []string
		for _, th := range ts {
			k := "no-keeper"
			if th.Keeper != nil {
				k = fmt.Sprintf("keeper%d", th.Keeper.ID)
			}
			parts = append(parts, fmt.Sprintf("thing%d:%s", th.ID, k))
		}
		return out(tx, strings.Join(parts, " "))
	case "keeper_find":
		var ks []fam.Keeper
		tx := db.Unscoped().Preload("Things").Where("id BETWEEN ? AND ?", lo, hi).Find(&ks)
		return out(tx, fmt.Sprint(len(ks)))
	case "tx", "tx_fail":
		err := db.Transaction(func(tx *gorm.DB) error {
			// the same statement text other tasks run outside a transaction ("first")
			var u0 fam.User
			if err := tx.First(&u0, id).Error; err != nil && !errors.Is(err, gorm.ErrRecordNotFound) {
				return err
			}
			if err := tx.Create(&fam.Note{ID: id + 70 + uint(op.X), Body: "in-tx", Rank: op.X}).Error; err != nil {
				return err
			}
			if err := tx.Model(&fam.User{ID: id}).Update("age", 100+op.X).Error; err != nil {
				return err
			}
			if op.Kind == "tx_fail" {
				return fmt.Errorf("task rollback")
			}
			return nil
		})
		return fmt.Sprintf("err=%v", err)
	case "assoc_append":
		err := db.Model(&fam.User{ID: id}).Association("Pets").Append(&fam.Pet{ID: id + 3 + uint(op.X%5), Name: "appended"})
		return fmt.Sprintf("err=%v", err)
	case "assoc_replace":
		err := db.Model(&fam.User{ID: id}).Association("Pets").Replace(&fam.Pet{ID: id + 8, Name: "replaced"})
		return fmt.Sprintf("err=%v", err)
	case "assoc_clear":
		err := db.Model(&fam.User{ID: id}).Association("Pets").Clear()
		return fmt.Sprintf("err=%v", err)
	case "assoc_delete":
		err := db.Model(&fam.User{ID: id}).Association("Pets").Delete(&fam.Pet{ID: id + 1})
		return fmt.Sprintf("err=%v", err)
	case "assoc_replace_account":
		err := db.Model(&fam.User{ID: id}).Association("Account").Replace(&fam.Account{ID: id + 21, Number: fmt.Sprintf("racc%d", op.X)})
		return fmt.Sprintf("err=%v", err)
	case "assoc_delete_company":
		cid := uint(100000*(t+1) + 90000 + op.J)
		err := db.Model(&fam.User{ID: id, CompanyID: &cid}).Association("Company").Delete(&fam.Company{ID: cid})
		return fmt.Sprintf("err=%v", err)
	case "assoc_replace_langs":
		err := db.Model(&fam.User{ID: id}).Association("Languages").Replace(&fam.Language{Code: fmt.Sprintf("R%d_%d", t, op.J), Name: "rl"})
		return fmt.Sprintf("err=%v", err)
	case "assoc_find":
		var ps []fam.Pet
		err := db.Model(&fam.User{ID: id}).Association("Pets").Find(&ps)
		ids := []string{}
		for _, p := range ps {
			ids = append(ids, fmt.Sprint(p.ID))
		}
		return fmt.Sprintf("err=%v pets=%s", err, strings.Join(ids, ","))
	case "assoc_count":
		as := db.Model(&fam.User{ID: id}).Association("Languages")
		n := as.Count()
		return fmt.Sprintf("err=%v n=%d", as.Error, n)
	case "gadget", "dry_gadget":
		// database-side defaults: which columns are inserted depends on the value
		g := &fam.Gadget{ID: id + 90 + uint(op.X%5), Name: fmt.Sprintf("g%d", op.X)}
		switch op.X % 3 {
		case 0:
			g.Score = 1000 + op.X
		case 1:
			g.Level = 2000 + op.X
		}
		if op.Kind == "dry_gadget" {
			tx := db.Session(&gorm.Session{DryRun: true, SkipDefaultTransaction: true}).Create(g)
			return out(tx, drySQL(tx))
		}
		tx := db.Create(g)
		return out(tx, fmt.Sprintf("G{%d %s %d %d}", g.ID, g.Name, g.Score, g.Level))
	case "dry_create":
		u := userFor(t, op.J, false)
		u.Company, u.Pets = nil, nil
		tx := db.Session(&gorm.Session{DryRun: true, SkipDefaultTransaction: true}).Create(u)
		return out(tx, drySQL(tx))
	case "dry_update":
		tx := db.Session(&gorm.Session{DryRun: true, SkipDefaultTransaction: true}).Model(&fam.User{ID: id}).Updates(map[string]interface{}{"name": fmt.Sprintf("d%d", op.X), "age": op.X})
		return out(tx, drySQL(tx))
	case "dry_find":
		var us []fam.User
		tx := db.Session(&gorm.Session{DryRun: true, SkipDefaultTransaction: true}).Where("id BETWEEN ? AND ? AND name <> ?", lo, hi, fmt.Sprintf("x%d", op.X)).Order("id").Limit(1 + op.X%5).Find(&us)
		return out(tx, drySQL(tx))
	case "dry_delete":
		tx := db.Session(&gorm.Session{DryRun: true, SkipDefaultTransaction: true}).Where("age > ?", op.X).Delete(&fam.User{ID: id})
		return out(tx, drySQL(tx))
	case "cond_dry":
		// nothing but a finisher (or condition-free chain methods) on the shared conditioned handle
		h := condHandle.Session(&gorm.Session{DryRun: true})
		var tx *gorm.DB
		switch op.X % 3 {
		case 0:
			var ns []fam.Note
			tx = h.Find(&ns)
		case 1:
			var ids []uint
			tx = h.Table("notes").Order("id").Limit(1+op.X%4).Pluck("id", &ids)
		default:
			var n int64
			tx = h.Count(&n)
		}
		return out(tx, drySQL(tx))
	case "cond_setting":
		// a setting of its own on a chain from the shared handle (which carries one under
		// the same key), a statement, then the setting as the chain and the handle see it
		var ns []fam.Note
		tx := setHandle.Set(settingKey, fmt.Sprintf("task%d-%d", t, op.X)).Where("id = ?", -1).Find(&ns) // no such row: the result does not depend on what other tasks store
		mine, _ := tx.Get(settingKey)
		base, _ := setHandle.Get(settingKey)
		return out(tx, fmt.Sprintf("n=%d mine=%v handle=%v", len(ns), mine, base))
	case "note":
		n := &fam.Note{ID: id + 80 + uint(op.X%10), Body: "note", Rank: op.X, Tag: fam.Sealed(fmt.Sprintf("tag-%d-%d", t, op.X))}
		return out(db.Create(n), fmt.Sprint(n.ID))
	case "note_find":
		var ns []fam.Note
		tx := db.Where("id BETWEEN ? AND ?", lo, hi).Order("id").Find(&ns)
		ids := []string{}
		for _, n := range ns {
			ids = append(ids, fmt.Sprintf("%d/%d/%s", n.ID, n.Rank, n.Tag))
		}
		return out(tx, strings.Join(ids, ","))
	}
	return "unknown op " + op.Kind
}

// ---------------------------------------------------------------- runs

type runResult struct {
	results [][]string
	dump    string
	sres    *sched.Result
	panics  []string
	events  int
	leak    string
	trouble string
}

func (p Prop) open(c *Case, s *sched.Sched) (*env.Env, *simpool.Pool, error) {
	var pool *simpool.Pool
	o := env.Options{PrepareStmt: c.Prepare, File: true, NoFixture: true, FixedClock: true}
	o.WrapPool = func(db *sql.DB, drv *simdrv.Sim) gorm.ConnPool {
		pool = simpool.New(db, drv)
		pool.UseToken = os.Getenv("DBG_NOTOKEN") == ""
		return pool
	}
	if s != nil {
		o.Namer = simnamer.Namer{Yield: s.Yield}
		o.Yield = s.Yield
	} else {
		o.Namer = simnamer.Namer{}
	}
	e, err := env.Open(o)
	return e, pool, err
}

// yieldPool makes the per-type scan-value pools (schema.Field.NewValuePool, an
// exported seam) scheduling points: another task may run between the moment a
// value is handed back and whatever the caller does next, and between a Get and
// its use.  In a serial execution every task passes a database/sql mutex between
// two pool accesses, which would otherwise hide misuse of pooled values from
// both the differential oracle and the race detector.
type yieldPool struct {
	in interface {
		Get() interface{}
		Put(interface{})
	}
	s  *sched.Sched
	st *poolState
}

// poolState is a simulated sync.Pool: a LIFO free list shared by all tasks, so
// that Get returns the value most recently Put by anybody (which sync.Pool is
// free to do, and whether it does depends on the runtime's placement of
// goroutines on Ps - a source of nondeterminism the simulator must own).  Like
// sync.Pool it orders a Put before the Get that receives the same value and
// nothing else: the list itself is touched only in //go:norace code, and every
// entry carries its own atomic word for the release/acquire pair (a mutex around
// the list would order every task's Put before every later Get of any task and
// hide races from the detector).
type poolState struct {
	free []*poolEntry
	// perTask (race builds): a value is handed back only to the task that Put it.
	// The shared LIFO maximises hand-overs between tasks, which is what the
	// differential oracle wants, but every hand-over is also a happens-before edge
	// (as with sync.Pool) that orders the two tasks for the race detector.
	perTask [sched.MaxTasks][]*poolEntry
}

// RaceBuild is set by the worker binary when it was built with -race.
var RaceBuild bool

type poolEntry struct {
	v    interface{}
	sync uint32
}

//go:norace
func (st *poolState) push(e *poolEntry) bool {
	if len(st.free) == cap(st.free) {
		return false
	}
	st.free = append(st.free, e)
	return true
}

//go:norace
func (st *poolState) pop() *poolEntry {
	n := len(st.free)
	if n == 0 {
		return nil
	}
	e := st.free[n-1]
	st.free = st.free[:n-1]
	return e
}

//go:norace
func (st *poolState) pushTask(t int, e *poolEntry) {
	if t >= 0 && t < len(st.perTask) && len(st.perTask[t]) < 64 {
		st.perTask[t] = append(st.perTask[t], e)
	}
}

//go:norace
func (st *poolState) popTask(t int) *poolEntry {
	if t < 0 || t >= len(st.perTask) {
		return nil
	}
	n := len(st.perTask[t])
	if n == 0 {
		return nil
	}
	e := st.perTask[t][n-1]
	st.perTask[t] = st.perTask[t][:n-1]
	return e
}

func (p yieldPool) Get() interface{} {
	p.s.Yield("valuepool:get")
	if RaceBuild {
		if e := p.st.popTask(p.s.Cur()); e != nil {
			return e.v
		}
		return p.in.Get()
	}
	if e := p.st.pop(); e != nil {
		atomic.LoadUint32(&e.sync) // acquire: ordered after the Put of this very value
		return e.v
	}
	return p.in.Get() // the real pool is never Put into: this allocates a fresh value
}

func (p yieldPool) Put(v interface{}) {
	if RaceBuild {
		p.st.pushTask(p.s.Cur(), &poolEntry{v: v})
		p.s.Yield("valuepool:put")
		return
	}
	e := &poolEntry{v: v}
	atomic.StoreUint32(&e.sync, 1) // release
	p.st.push(e)
	p.s.Yield("valuepool:put")
}

// warm parses every model before the tasks start; with a scheduler it also
// wraps the value pools of the parsed fields.
func warm(db *gorm.DB, s *sched.Sched) {
	seen := map[*schema.Schema]bool{}
	states := map[interface{}]*poolState{} // one simulated pool per real pool (they are shared per Go type)
	var wrap func(sc *schema.Schema)
	wrap = func(sc *schema.Schema) {
		if sc == nil || seen[sc] {
			return
		}
		seen[sc] = true
		if s != nil {
			for _, f := range sc.Fields {
				if _, done := f.NewValuePool.(yieldPool); !done && f.NewValuePool != nil {
					st := states[f.NewValuePool]
					if st == nil {
						st = &poolState{free: make([]*poolEntry, 0, 8192)}
						states[f.NewValuePool] = st
					}
					f.NewValuePool = yieldPool{in: f.NewValuePool, s: s, st: st}
				}
			}
		}
		for _, rel := range sc.Relationships.Relations {
			wrap(rel.FieldSchema)
			if rel.JoinTable != nil {
				wrap(rel.JoinTable)
			}
		}
	}
	for _, m := range fam.AllModels() {
		st := &gorm.Statement{DB: db} // a statement of its own: Parse must not touch the shared handle's
		if err := st.Parse(m); err == nil {
			wrap(st.Schema)
		}
	}
}

// serial runs the programs one task after another: the reference.
func (p Prop) serial(c *Case) (*runResult, error) {
	e, _, err := p.open(c, nil)
	if err != nil {
		return nil, err
	}
	defer e.Close()
	rr := &runResult{results: make([][]string, len(c.Tasks))}
	condHandle = mkCond(e.DB)
	for t, prog := range c.Tasks {
		for _, op := range prog {
			rr.results[t] = append(rr.results[t], runOp(e.DB, t, op))
		}
	}
	rr.dump, err = e.Dump()
	return rr, err
}

func installHooks(s *sched.Sched) { sched.SetActive(s) }

func removeHooks() { sched.SetActive(nil) }

// concurrent runs the programs as tasks under the scheduler.
func (p Prop) concurrent(c *Case) (*runResult, error) {
	s := sched.NewLimit(c.Vec, 60000)
	e, pool, err := p.open(c, s)
	if err != nil {
		return nil, err
	}
	defer e.Close()
	if !c.Cold {
		warm(e.DB, s)
	}
	pool.Sched = s
	// one *sql.DB per task (up to the number of programs plus spawned helpers)
	// (not in prepared-statement mode: a *sql.Stmt belongs to the *sql.DB that prepared it)
	var extra []*sql.DB
	if !c.Prepare {
		for range c.Tasks {
			extra = append(extra, sql.OpenDB(e.Drv.Connector()))
		}
		pool.PerTask = extra
	}
	defer func() {
		for _, d := range extra {
			d.Close()
		}
	}()
	e.Drv.Cur = s.Cur
	s.OnAbort = func() { pool.Abort(); e.Drv.Passive = true }
	installHooks(s)
	fam.Sink = func(hc fam.HookCall) error { s.Yield("hook:" + hc.Hook); return nil }
	defer func() { removeHooks(); fam.Sink = nil }()
	rr := &runResult{results: make([][]string, len(c.Tasks))}
	condHandle = mkCond(e.DB)
	panics := make([]string, len(c.Tasks))
	var names []string
	var bodies []func()
	for t := range c.Tasks {
		t := t
		names = append(names, fmt.Sprintf("task%d", t))
		bodies = append(bodies, func() {
			defer func() {
				if pv := recover(); pv != nil {
					panics[t] = fmt.Sprint(pv)
				}
			}()
			for _, op := range c.Tasks[t] {
				rr.results[t] = append(rr.results[t], runOp(e.DB, t, op))
			}
		})
	}
	rr.sres = s.Run(names, bodies, watchdog())
	removeHooks()
	fam.Sink = nil
	for t, pv := range panics {
		if pv != "" {
			rr.panics = append(rr.panics, fmt.Sprintf("task %d: %s", t, pv))
		}
	}
	if rr.sres.Aborted {
		return rr, nil
	}
	evs := e.Drv.Events()
	rr.events = len(evs)
	for _, ev := range evs {
		if strings.Contains(ev.Err, "database is locked") || strings.Contains(ev.Err, "database table is locked") {
			rr.trouble = "engine lock error: " + ev.Kind + " " + ev.SQL + ": " + ev.Err
		}
	}
	inUse := e.Pool.Stats().InUse
	for _, d := range extra {
		inUse += d.Stats().InUse
	}
	if inUse != 0 {
		rr.leak = fmt.Sprintf("sql.DB.Stats().InUse=%d", inUse)
	}
	if oc := simdrv.CountOpen(evs); oc.OpenTx != 0 || oc.OpenRows != 0 {
		rr.leak += fmt.Sprintf(" open tx=%d rows=%d", oc.OpenTx, oc.OpenRows)
	}
	e.Drv.Passive = true
	rr.dump, err = e.Dump()
	return rr, err
}

// Debug prints every task's results and the trace.
var Debug bool

func (p Prop) Run(ci interface{}, focus *core.Violation) *core.Outcome {
	c := ci.(*Case)
	o := &core.Outcome{Runs: 1}
	defer func() {
		if Debug && o.Sample != nil {
			fmt.Println(o.Sample)
		}
	}()
	want, err := p.serial(c)
	if err != nil {
		o.Trouble = "serial reference run: " + err.Error()
		return o
	}
	got, err := p.concurrent(c)
	if err != nil {
		o.Trouble = "scheduled run: " + err.Error()
		return o
	}
	sr := got.sres
	if Debug {
		fmt.Println("TRACE", strings.Join(sr.Trace, " "))
		for t := range got.results {
			for i, r := range got.results[t] {
				fmt.Printf("GOT  t%d op%d %s\nWANT t%d op%d %s\n", t, i, r, t, i, want.results[t][i])
			}
		}
	}
	o.TraceHash = core.Hash(sr.SwitchHash, strings.Join(sr.Trace, ","))
	if sr.Switches > 0 {
		o.Hashes = []string{core.Hash(sr.SwitchHash)}
	}
	o.Count("yields", int64(sr.Yields))
	o.Count("context_switches", int64(sr.Switches))
	o.Count("waits_on_inprogress_schema_or_token", int64(sr.Waits))
	o.Count(fmt.Sprintf("runs_with_%02d_tasks", len(c.Tasks)), 1)
	if c.Cold {
		o.Count("runs_cold_cache", 1)
	} else {
		o.Count("runs_warm_cache", 1)
	}
	for _, tr := range sr.Trace {
		if strings.Contains(tr, "wait:schema") {
			o.Count("probe:waited_on_half_built_schema", 1)
		}
		if strings.HasSuffix(tr, "wait:schema:lost-store") {
			o.Count("probe:lost_schema_store_race", 1)
		}
		if strings.HasSuffix(tr, "wait:schema:second-hit") {
			o.Count("probe:schema_second_check_hit", 1)
		}
		if strings.Contains(tr, "valuepool:") {
			o.Count("probe:value_pool_yield", 1)
		}
		if strings.HasSuffix(tr, "relation:after-parse") {
			o.Count("probe:relation_parse_interleaving_point", 1)
		}
	}
	o.Sample = map[string]interface{}{"tasks": c.Tasks, "cold": c.Cold, "prepare_stmt": c.Prepare, "schedule_len": len(c.Vec), "context_switches": sr.Switches, "switch_sequence": sr.SwitchHash}
	cfg := fmt.Sprintf("cold=%v prepare=%v tasks=%d", c.Cold, c.Prepare, len(c.Tasks))
	if sr.Aborted {
		if sr.Reason == "deadlock" {
			v := &core.Violation{Class: "deadlock", Key: "c07|" + stuckKey(sr.Stuck), Detail: fmt.Sprintf("all unfinished tasks wait for each other (%s): %v", cfg, sr.Stuck)}
			o.Report(v, focus, o.TraceHash)
			return o
		}
		if sr.Reason == "watchdog" && len(sr.Blocked) > 0 {
			// the scheduler parks tasks with no lock held: a goroutine that sits on a real
			// lock or channel inside gorm when the watchdog fires will never get it
			v := &core.Violation{Class: "deadlock", Key: "c07|blocked_in_gorm|" + sr.Blocked[0], Detail: fmt.Sprintf("the run stopped making progress; blocked inside gorm, not parked by the scheduler: %v (%s)", sr.Blocked, cfg)}
			o.Report(v, focus, o.TraceHash)
			return o
		}
		o.Trouble = "run aborted: " + sr.Reason + " " + strings.Join(sr.Stuck, "; ")
		return o
	}
	if got.trouble != "" {
		o.Trouble = got.trouble
		return o
	}
	if len(got.panics) > 0 {
		if o.Report(&core.Violation{Class: "panic", Key: "c07|" + firstWords(got.panics[0], 6), Detail: strings.Join(got.panics, "; ") + " (" + cfg + ")"}, focus, o.TraceHash) {
			return o
		}
	}
	for t := range c.Tasks {
		for i := range c.Tasks[t] {
			w := want.results[t][i]
			g := "<not run>"
			if i < len(got.results[t]) {
				g = got.results[t][i]
			}
			if w != g {
				v := &core.Violation{Class: "result_differs", Key: fmt.Sprintf("%s|cold=%v", c.Tasks[t][i].Kind, c.Cold), Detail: fmt.Sprintf("task %d op %d (%s): concurrent run returned\n  %s\nserial run returned\n  %s\n(%s)", t, i, c.Tasks[t][i].Kind, g, w, cfg)}
				if o.Report(v, focus, o.TraceHash) {
					return o
				}
			}
		}
	}
	if got.dump != want.dump {
		v := &core.Violation{Class: "rows_differ", Key: "final", Detail: "final rows differ from the serial run (" + cfg + "):\n" + diff(want.dump, got.dump)}
		if o.Report(v, focus, o.TraceHash) {
			return o
		}
	}
	if got.leak != "" {
		if o.Report(&core.Violation{Class: "leak", Key: "c07", Detail: got.leak}, focus, o.TraceHash) {
			return o
		}
	}
	return o
}

func stuckKey(st []string) string {
	var w []string
	for _, s := range st {
		if i := strings.Index(s, "waits for "); i >= 0 {
			w = append(w, s[i+10:])
		}
	}
	sort.Strings(w)
	return strings.Join(w, ",")
}

func firstWords(s string, n int) string {
	f := strings.Fields(s)
	if len(f) > n {
		f = f[:n]
	}
	return strings.Join(f, " ")
}

func diff(a, b string) string {
	am, bm := map[string]int{}, map[string]int{}
	for _, l := range strings.Split(a, "\n") {
		am[l]++
	}
	for _, l := range strings.Split(b, "\n") {
		bm[l]++
	}
	var sb strings.Builder
	for _, l := range strings.Split(a, "\n") {
		if bm[l] == 0 {
			sb.WriteString("  - " + l + "\n")
		}
	}
	for _, l := range strings.Split(b, "\n") {
		if am[l] == 0 {
			sb.WriteString("  + " + l + "\n")
		}
	}
	return sb.String()
}

// watchdog is the wall-clock limit of one scheduled run (a run takes
// milliseconds; race builds are an order of magnitude slower).
func watchdog() time.Duration {
	if core.RaceBuild {
		return 20 * time.Second
	}
	return 8 * time.Second
}
