// Package c14: the prepared-statement cache is transparent, leak-free and safe
// in any interleaving.
//
// 2..4 client tasks (plus the closer goroutines gorm starts itself) run the
// same few statement texts directly and inside transactions through a prepared
// handle, interleaved with Reset and Close, under the seeded scheduler; Prepare
// may fail and connections may turn bad.
package c14

import (
	"database/sql"
	"encoding/json"
	"errors"
	"fmt"
	"runtime"
	"sort"
	"strings"
	"sync"
	"time"

	"github.com/anishathalye/porcupine"
	"gorm.io/gorm"

	"verif/sim/core"
	"verif/sim/env"
	"verif/sim/fam"
	"verif/sim/sched"
	"verif/sim/simdrv"
	"verif/sim/simpool"
)

var texts = []string{
	"SELECT id, body, rank FROM notes WHERE rank >= ? ORDER BY id",
	"SELECT id, body, rank FROM notes WHERE id = ?",
	"SELECT id, body, rank FROM notes WHERE rank < ? ORDER BY id",
	"SELECT 0 AS id, 'n' AS body, count(*) AS rank FROM notes WHERE rank <> ?",
}

const writeText = "INSERT INTO kvs(k,v) VALUES(?,?)"

// readBackText: inside the writer's transaction, its own uncommitted row is
// read back through Row() (the QueryRowContext path and its unprepared fallback).
const readBackText = "SELECT v FROM kvs WHERE k = ?"

type Op struct {
	Kind   string `json:"kind"` // use tx wtx reset close
	Text   int    `json:"text,omitempty"`
	Exec   bool   `json:"exec,omitempty"` // through ExecContext instead of QueryContext
	Row    bool   `json:"row,omitempty"`  // through QueryRowContext (Row().Scan) instead of QueryContext
	Arg    int    `json:"arg,omitempty"`
	Inner  []Op   `json:"inner,omitempty"`  // tx: uses inside the transaction
	Commit bool   `json:"commit,omitempty"` // tx/wtx: commit (else rollback)
}

type Case struct {
	Clients     [][]Op          `json:"clients"`
	SessionMode bool            `json:"session_mode"` // handles come from Session{PrepareStmt:true} on a non-prepared handle
	Faults      []*simdrv.Fault `json:"faults,omitempty"`
	Bound       int             `json:"pool_bound,omitempty"` // simulated MaxOpenConns (0 = unbounded)
	Vec         []uint16        `json:"schedule"`
}

type Prop struct{}

func (Prop) ID() string    { return "C14" }
func (Prop) Level() string { return "exploration" }
func (Prop) Rule() string {
	return "a case is 2..4 client programs over 4 shared statement texts (query/exec, direct or inside Begin…Commit/Rollback, one writer), Reset and Close calls, handles from Config.PrepareStmt or from Session{PrepareStmt:true} first use, 0..2 planned faults (Prepare error, ErrBadConn bursts), an optional simulated pool bound, and a schedule vector; one evaluation = one scheduled run; non-trivial = at least one context switch; distinct = distinct context-switch sequence"
}
func (Prop) Assumptions() []string {
	return []string{
		"read texts target a fixture table nobody modifies, so the expected rows are those of the same statement run non-prepared before the run",
		"nothing parks inside database/sql or the driver; executions of already prepared statements interleave at whole-call granularity",
		"'prepared at most once' counts pool-bound Prepare calls per text between two Resets, not re-preparation after a failed Prepare or an ErrBadConn eviction, and not transaction-bound preparations requested before a pool-bound entry existed",
		"the goroutines of gorm's ErrBadConn branches (`go stmt.Close()`) are outside the scheduler; leak checks wait for them",
	}
}

// ---------------------------------------------------------------- generation

func genUse(r *core.Rand) Op {
	op := Op{Kind: "use", Text: r.Intn(len(texts)), Exec: r.Chance(30), Arg: r.Intn(4)}
	if op.Exec {
		op.Text = r.Intn(3) // the aggregate text always returns a row
	} else if r.Chance(20) {
		op.Row, op.Text = true, 3 // the aggregate text returns exactly one row
	}
	return op
}

func (Prop) Gen(r *core.Rand, tier string) interface{} {
	c := &Case{SessionMode: r.Chance(35)}
	n := 2 + r.Intn(3)
	resets := 0
	for t := 0; t < n; t++ {
		var prog []Op
		k := 1 + r.Intn(6)
		for i := 0; i < k; i++ {
			switch x := r.Intn(20); {
			case x < 2 && c.SessionMode:
				// a use through Session{PrepareStmt:true} taken inside Connection(fc)
				prog = append(prog, Op{Kind: "conn", Inner: []Op{genUse(r)}})
			case x < 11:
				prog = append(prog, genUse(r))
			case x < 15:
				op := Op{Kind: "tx", Commit: r.Bool()}
				for j, m := 0, 1+r.Intn(3); j < m; j++ {
					op.Inner = append(op.Inner, genUse(r))
				}
				prog = append(prog, op)
			case x < 17 && t == 0:
				prog = append(prog, Op{Kind: "wtx", Arg: r.Intn(1000), Commit: r.Chance(70)})
			case x < 19 && resets < 2:
				resets++
				prog = append(prog, Op{Kind: "reset"})
			case x == 19 && r.Chance(40):
				prog = append(prog, Op{Kind: "close"})
			default:
				prog = append(prog, genUse(r))
			}
		}
		c.Clients = append(c.Clients, prog)
	}
	if r.Chance(45) {
		for i, m := 0, 1+r.Intn(2); i < m; i++ {
			f := &simdrv.Fault{ID: i + 1, SQL: texts[r.Intn(len(texts))], Occ: r.Intn(3)}
			switch x := r.Intn(10); {
			case x < 5:
				f.Kind, f.Type = "prepare", "err"
				if r.Chance(30) {
					// the connection goes bad while preparing (database/sql retries twice outside a transaction)
					f.Type, f.Burst = "bad_conn", 3
				}
				if r.Chance(25) {
					f.SQL, f.Occ = readBackText, 0 // the writer's read-back falls back to the unprepared path
				}
			case x < 8:
				f.Kind, f.Type, f.Burst = "query", "bad_conn", 3
			default:
				f.Kind, f.Type, f.Burst = "exec", "bad_conn", 3
			}
			c.Faults = append(c.Faults, f)
		}
	}
	if r.Chance(10) {
		// waiters scenario: every client starts with the same text (not through Row()),
		// its first preparation fails, nobody resets or closes: whoever waited for that
		// preparation must be told
		c.SessionMode = false
		text := r.Intn(3)
		for t := range c.Clients {
			var prog []Op
			for _, op := range c.Clients[t] {
				if op.Kind != "reset" && op.Kind != "close" {
					prog = append(prog, op)
				}
			}
			c.Clients[t] = append([]Op{{Kind: "use", Text: text, Arg: r.Intn(4)}}, prog...)
		}
		c.Faults = []*simdrv.Fault{{ID: 1, Kind: "prepare", Type: "err", SQL: texts[text], Occ: 0}}
	}
	if tier == "thorough" && r.Chance(35) {
		c.Bound = 1 + r.Intn(2)
	}
	k := 100 + r.Intn(500)
	density := []int{5, 15, 40, 80}[r.Intn(4)]
	if r.Chance(10) {
		k = 0
	}
	c.Vec = sched.GenVector(r.Intn, k, density)
	return c
}

func (Prop) Decode(raw json.RawMessage) (interface{}, error) {
	c := &Case{}
	return c, json.Unmarshal(raw, c)
}

func (Prop) Shrink(ci interface{}) []interface{} {
	c := ci.(*Case)
	var out []interface{}
	if len(c.Clients) > 1 {
		for t := range c.Clients {
			v := *c
			v.Clients = append(append([][]Op{}, c.Clients[:t]...), c.Clients[t+1:]...)
			out = append(out, &v)
		}
	}
	for t := range c.Clients {
		for i := range c.Clients[t] {
			v := *c
			v.Clients = append([][]Op{}, c.Clients...)
			v.Clients[t] = append(append([]Op{}, c.Clients[t][:i]...), c.Clients[t][i+1:]...)
			out = append(out, &v)
			if op := c.Clients[t][i]; op.Kind == "tx" && len(op.Inner) > 0 {
				// replace the transaction by its first inner use
				v2 := *c
				v2.Clients = append([][]Op{}, c.Clients...)
				v2.Clients[t] = append([]Op{}, c.Clients[t]...)
				v2.Clients[t][i] = op.Inner[0]
				out = append(out, &v2)
				if len(op.Inner) > 1 {
					v3 := *c
					v3.Clients = append([][]Op{}, c.Clients...)
					v3.Clients[t] = append([]Op{}, c.Clients[t]...)
					o3 := op
					o3.Inner = op.Inner[:len(op.Inner)-1]
					v3.Clients[t][i] = o3
					out = append(out, &v3)
				}
			}
		}
	}
	for i := range c.Faults {
		v := *c
		v.Faults = append(append([]*simdrv.Fault{}, c.Faults[:i]...), c.Faults[i+1:]...)
		out = append(out, &v)
	}
	if len(c.Vec) > 0 {
		v := *c
		v.Vec = c.Vec[:len(c.Vec)/2]
		out = append(out, &v)
		v2 := *c
		v2.Vec = append([]uint16{}, c.Vec...)
		changed := false
		for i := range v2.Vec {
			if v2.Vec[i] != 0 && i%2 == 0 {
				v2.Vec[i] = 0
				changed = true
			}
		}
		if changed {
			out = append(out, &v2)
		}
	}
	if c.Bound > 0 {
		v := *c
		v.Bound = 0
		out = append(out, &v)
	}
	return out
}

// ---------------------------------------------------------------- execution

// rec is one executed client operation.
type rec struct {
	Task   int
	Kind   string // use reset close
	Text   int
	InTx   bool
	Call   int64
	Return int64
	Result string
	Want   string
	Err    string
}

type runState struct {
	c      *Case
	e      *env.Env
	s      *sched.Sched
	expect map[string]string // text|arg -> rendered rows (non-prepared)
	recs   [][]rec           // per task
	pdbs   []*gorm.PreparedStmtDB
	pmu    sync.Mutex
	names  map[interface{}]string
	wrote  [][2]string // committed writer rows
	panics []string
	waits  []waitRec // tasks that started to wait on an in-progress preparation
}

type waitRec struct {
	Task  int
	Point string
	Seq   int64
}

func renderNotes(ns []fam.Note) string {
	var b strings.Builder
	for _, n := range ns {
		fmt.Fprintf(&b, "%d/%s/%d;", n.ID, n.Body, n.Rank)
	}
	return b.String()
}

func (rs *runState) psdbOf(h *gorm.DB) *gorm.PreparedStmtDB {
	p, _ := h.Statement.ConnPool.(*gorm.PreparedStmtDB)
	if p == nil {
		p, _ = h.ConnPool.(*gorm.PreparedStmtDB)
	}
	return p
}

// snapshotNames gives the closers of a Reset/Close stable names (statement text).
func (rs *runState) snapshotNames(p *gorm.PreparedStmtDB) {
	rs.pmu.Lock()
	defer rs.pmu.Unlock()
	p.Mux.RLock()
	for q, st := range p.Stmts {
		rs.names[st] = q
	}
	p.Mux.RUnlock()
}

func (rs *runState) use(h *gorm.DB, t int, op Op, inTx bool) error {
	r := rec{Task: t, Kind: "use", Text: op.Text, InTx: inTx, Call: rs.e.Drv.Tick()}
	var err error
	if op.Exec {
		// go-sqlite3 does not reset a statement run through Exec that produced a
		// row, which would pin a stale read snapshot on the connection: exec only
		// with arguments that select nothing
		arg := 100 + op.Arg
		if op.Text == 2 {
			arg = -arg
		}
		err = h.Exec(texts[op.Text], arg).Error
		r.Want = "exec-ok"
		if err == nil {
			r.Result = "exec-ok"
		}
	} else if op.Row {
		r.Want = rs.expect[fmt.Sprintf("%d|%d", op.Text, op.Arg)]
		var n fam.Note
		func() {
			defer func() {
				if pv := recover(); pv != nil {
					err = fmt.Errorf("panic in Row().Scan: %v", pv)
				}
			}()
			err = h.Raw(texts[op.Text], op.Arg).Row().Scan(&n.ID, &n.Body, &n.Rank)
		}()
		if err == nil {
			r.Result = renderNotes([]fam.Note{n})
		}
	} else {
		r.Want = rs.expect[fmt.Sprintf("%d|%d", op.Text, op.Arg)]
		var ns []fam.Note
		err = h.Raw(texts[op.Text], op.Arg).Scan(&ns).Error
		if err == nil {
			r.Result = renderNotes(ns)
		}
	}
	if err != nil {
		r.Err = err.Error()
		if strings.Contains(r.Err, "bad connection") {
			// gorm's ErrBadConn branch has just started `go stmt.Close()`, a goroutine
			// outside the scheduler: give it (real) time to finish, so that what later
			// operations see of the evicted statement does not depend on a race
			for i := 0; i < 4; i++ {
				runtime.Gosched()
				time.Sleep(100 * time.Microsecond)
			}
		}
	}
	r.Return = rs.e.Drv.Tick()
	rs.recs[t] = append(rs.recs[t], r)
	return err
}

func (rs *runState) client(t int, base *gorm.DB) {
	defer func() {
		if pv := recover(); pv != nil {
			rs.pmu.Lock()
			rs.panics = append(rs.panics, fmt.Sprintf("task %d: %v", t, pv))
			rs.pmu.Unlock()
		}
	}()
	h := base
	if rs.c.SessionMode {
		h = base.Session(&gorm.Session{PrepareStmt: true})
		if p := rs.psdbOf(h); p != nil {
			rs.pmu.Lock()
			rs.pdbs = append(rs.pdbs, p)
			rs.pmu.Unlock()
		}
	}
	for _, op := range rs.c.Clients[t] {
		switch op.Kind {
		case "use":
			rs.use(h, t, op, false)
		case "tx":
			tx := h.Begin(&sql.TxOptions{ReadOnly: true})
			if tx.Error != nil {
				rs.recs[t] = append(rs.recs[t], rec{Task: t, Kind: "begin", Call: rs.e.Drv.Tick(), Return: rs.e.Drv.Tick(), Err: tx.Error.Error()})
				continue
			}
			failed := false
			for _, in := range op.Inner {
				if rs.use(tx, t, in, true) != nil {
					failed = true
					break
				}
			}
			if op.Commit && !failed {
				tx.Commit()
			} else {
				tx.Rollback()
			}
		case "conn":
			_ = base.Connection(func(ctx *gorm.DB) error {
				h2 := ctx.Session(&gorm.Session{PrepareStmt: true})
				if p := rs.psdbOf(h2); p != nil {
					rs.pmu.Lock()
					rs.pdbs = append(rs.pdbs, p)
					rs.pmu.Unlock()
				}
				for _, in := range op.Inner {
					rs.use(h2, t, in, false)
				}
				return nil
			})
		case "wtx":
			tx := h.Begin()
			if tx.Error != nil {
				continue
			}
			k, v := fmt.Sprintf("w%d", op.Arg), fmt.Sprintf("val%d", op.Arg)
			err := tx.Exec(writeText, k, v).Error
			if err == nil {
				r := rec{Task: t, Kind: "readback", InTx: true, Call: rs.e.Drv.Tick(), Want: v}
				var got string
				func() {
					defer func() {
						if pv := recover(); pv != nil {
							r.Err = fmt.Sprintf("panic in Row().Scan: %v", pv)
						}
					}()
					if e := tx.Raw(readBackText, k).Row().Scan(&got); e != nil {
						r.Err = e.Error()
					}
				}()
				r.Result = got
				r.Return = rs.e.Drv.Tick()
				rs.recs[t] = append(rs.recs[t], r)
			}
			if err == nil && op.Commit {
				if tx.Commit().Error == nil {
					rs.wrote = append(rs.wrote, [2]string{k, v})
				}
			} else {
				tx.Rollback()
			}
		case "reset", "close":
			p := rs.psdbOf(h)
			if p == nil {
				continue
			}
			rs.snapshotNames(p)
			r := rec{Task: t, Kind: op.Kind, Call: rs.e.Drv.Tick()}
			if op.Kind == "reset" {
				p.Reset()
			} else {
				p.Close()
			}
			r.Return = rs.e.Drv.Tick()
			rs.recs[t] = append(rs.recs[t], r)
		}
	}
}

type result struct {
	recs      []rec
	sres      *sched.Result
	events    []simdrv.Event
	pool      []simpool.Event
	open      simdrv.Counts
	kvs       string
	wrote     [][2]string
	panics    []string
	trouble   string
	inUse     int
	waits     []waitRec
	closeHung bool          // the end-of-run Close of the statement cache never returned
	fired     map[int]int64 // fault id -> seq of the driver event at which it (first) fired
}

func (p Prop) exec(c *Case) (*result, error) {
	s := sched.New(c.Vec)
	var pool *simpool.Pool
	o := env.Options{PrepareStmt: !c.SessionMode, File: true, FixedClock: true}
	o.WrapPool = func(db *sql.DB, drv *simdrv.Sim) gorm.ConnPool {
		pool = simpool.New(db, drv)
		return pool
	}
	e, err := env.Open(o)
	if err != nil {
		return nil, err
	}
	defer e.Close()
	rs := &runState{c: c, e: e, s: s, expect: map[string]string{}, recs: make([][]rec, len(c.Clients)), names: map[interface{}]string{}}
	// expected rows: the same statements, non-prepared, before the run
	for ti, q := range texts {
		for a := 0; a < 4; a++ {
			rows, err := e.Raw.Query(q, a)
			if err != nil {
				return nil, err
			}
			var ns []fam.Note
			for rows.Next() {
				var n fam.Note
				if err := rows.Scan(&n.ID, &n.Body, &n.Rank); err != nil {
					// column order differs for the aggregate text
					rows.Close()
					return nil, err
				}
				ns = append(ns, n)
			}
			rows.Close()
			rs.expect[fmt.Sprintf("%d|%d", ti, a)] = renderNotes(ns)
		}
	}
	if p0 := rs.psdbOf(e.DB); p0 != nil {
		rs.pdbs = append(rs.pdbs, p0)
	}
	var faults []*simdrv.Fault
	for _, f := range c.Faults {
		cp := *f
		faults = append(faults, &cp)
	}
	e.Drv.SetFaults(faults)
	pool.Sched = s
	pool.Bound = c.Bound
	e.Drv.Cur = s.Cur
	s.OnAbort = func() { pool.Abort(); e.Drv.Passive = true }
	s.OnWait = func(t int, point string) {
		rs.pmu.Lock()
		rs.waits = append(rs.waits, waitRec{t, point, e.Drv.Tick()})
		rs.pmu.Unlock()
	}
	s.KeyName = func(key interface{}) string {
		rs.pmu.Lock()
		defer rs.pmu.Unlock()
		if n, ok := rs.names[key]; ok {
			return n
		}
		return "~unknown"
	}
	sched.SetActive(s)
	unhook := func() { sched.SetActive(nil) }
	defer unhook()
	var names []string
	var bodies []func()
	for t := range c.Clients {
		t := t
		names = append(names, fmt.Sprintf("client%d", t))
		bodies = append(bodies, func() { rs.client(t, e.DB) })
	}
	res := &result{fired: map[int]int64{}}
	res.sres = s.Run(names, bodies, watchdog())
	unhook()
	res.panics = rs.panics
	res.wrote = rs.wrote
	res.waits = rs.waits
	for t := range rs.recs {
		res.recs = append(res.recs, rs.recs[t]...)
	}
	sort.Slice(res.recs, func(i, j int) bool { return res.recs[i].Call < res.recs[j].Call })
	if res.sres.Aborted {
		return res, nil
	}
	// end of run: close every cache instance, then wait for the closers
	// (every task has returned: nothing runs concurrently with these calls, so a Close
	// that does not come back is waiting for a lock nobody will release)
	closed := make(chan struct{})
	go func() {
		for _, pd := range rs.pdbs {
			pd.Close()
		}
		if cs, ok := e.DB.Config.ConnPool.(*gorm.PreparedStmtDB); ok {
			cs.Close()
		}
		close(closed)
	}()
	select {
	case <-closed:
	case <-time.After(watchdog()):
		res.closeHung = true
		e.Drv.Passive = true
		return res, nil
	}
	deadline := time.Now().Add(5 * time.Second) // only spent when something is still open: closers outside the scheduler need real time, much of it on a loaded machine
	for {
		res.events = e.Drv.Events()
		res.open = simdrv.CountOpen(res.events)
		if (res.open.OpenStmts == 0 && e.Pool.Stats().InUse == 0) || time.Now().After(deadline) {
			break
		}
		time.Sleep(300 * time.Microsecond)
	}
	res.pool = pool.Events()
	if Debug {
		fmt.Printf("STATS %+v\n", e.Pool.Stats())
	}
	for _, ev := range res.events {
		if strings.Contains(ev.Err, "database is locked") || strings.Contains(ev.Err, "table is locked") {
			res.trouble = "engine lock error: " + ev.Kind + " " + ev.SQL + ": " + ev.Err
		}
		if ev.Fault != "" && ev.Seq > 0 {
			for _, f := range faults {
				if (strings.Contains(ev.Err, simdrv.Marker(f.ID)) || (f.Type == "bad_conn" && ev.Fault == "bad_conn" && ev.Kind == f.Kind && ev.SQL == f.SQL)) && res.fired[f.ID] == 0 {
					res.fired[f.ID] = ev.Seq
				}
			}
		}
	}
	res.inUse = e.Pool.Stats().InUse
	e.Drv.Passive = true
	rows, err := e.Raw.Query("SELECT k, v FROM kvs ORDER BY k")
	if err != nil {
		return nil, err
	}
	defer rows.Close()
	var sb strings.Builder
	for rows.Next() {
		var k, v string
		rows.Scan(&k, &v)
		sb.WriteString(k + "=" + v + ";")
	}
	res.kvs = sb.String()
	return res, nil
}

func isClosedErr(e string) bool {
	return strings.Contains(e, "statement is closed") || strings.Contains(e, gorm.ErrInvalidDB.Error())
}

type hInput struct {
	close bool
}
type hOutput struct {
	closedErr bool
}

// closedModel: a two-state register; a use may report "closed" only once closed.
var closedModel = porcupine.Model{
	Init: func() interface{} { return false },
	Step: func(state, input, output interface{}) (bool, interface{}) {
		closed := state.(bool)
		in, out := input.(hInput), output.(hOutput)
		if in.close {
			return true, true
		}
		if out.closedErr {
			return closed, closed
		}
		return true, closed
	},
	Equal: func(a, b interface{}) bool { return a.(bool) == b.(bool) },
}

// Debug prints the trace, the pool events and the operation records of every run.
var Debug bool

func (p Prop) Run(ci interface{}, focus *core.Violation) *core.Outcome {
	c := ci.(*Case)
	o := &core.Outcome{Runs: 1}
	res, err := p.exec(c)
	if err != nil {
		o.Trouble = err.Error()
		return o
	}
	sr := res.sres
	if Debug {
		fmt.Println("TRACE", strings.Join(sr.Trace, " "))
		for _, ev := range res.pool {
			fmt.Printf("POOL %+v\n", ev)
		}
		for _, ev := range res.events {
			fmt.Printf("DRV  %d t%d c%d %s %s stmt#%d err=%q fault=%s\n", ev.Seq, ev.Task, ev.Conn, ev.Kind, ev.SQL, ev.StmtN, ev.Err, ev.Fault)
		}
		for _, r := range res.recs {
			fmt.Printf("REC  %+v\n", r)
		}
	}
	o.TraceHash = core.Hash(sr.SwitchHash, strings.Join(sr.Trace, ","))
	if sr.Switches > 0 {
		o.Hashes = []string{core.Hash(sr.SwitchHash)}
	}
	o.Count("yields", int64(sr.Yields))
	o.Count("context_switches", int64(sr.Switches))
	o.Count("tasks_including_closers", int64(sr.Tasks))
	o.Count("waits", int64(sr.Waits))
	for _, tr := range sr.Trace {
		switch {
		case strings.HasSuffix(tr, "wait:prepare:hit"), strings.HasSuffix(tr, "wait:prepare:double-check-hit"):
			o.Count("probe:task_waited_on_inprogress_prepare", 1)
		case strings.HasSuffix(tr, "wait:closer:prepared"):
			o.Count("probe:closer_waited_for_inflight_prepare", 1)
		case strings.HasSuffix(tr, "prepare:failed"):
			o.Count("probe:prepare_failed", 1)
		case strings.HasSuffix(tr, "badconn"):
			o.Count("probe:errbadconn_eviction", 1)
		case strings.HasSuffix(tr, "session:prepared-stmt-miss"):
			o.Count("probe:session_first_use_miss", 1)
		case strings.HasSuffix(tr, "wait:pool slot"):
			o.Count("probe:waited_for_pool_slot", 1)
		}
	}
	for id := range res.fired {
		for _, f := range c.Faults {
			if f.ID == id {
				o.Count("fired:"+f.Kind+"_"+f.Type, 1)
			}
		}
	}
	o.Sample = map[string]interface{}{"case": c, "context_switches": sr.Switches, "switch_sequence": sr.SwitchHash}
	cfg := fmt.Sprintf("session_mode=%v bound=%d clients=%d faults=%d", c.SessionMode, c.Bound, len(c.Clients), len(c.Faults))
	report := func(class, key, detail string) bool {
		return o.Report(&core.Violation{Class: class, Key: key, Detail: detail + " (" + cfg + ")"}, focus, o.TraceHash)
	}
	if sr.Aborted {
		if sr.Reason == "deadlock" {
			b := "unbounded"
			if c.Bound > 0 {
				b = "bounded"
			}
			report("deadlock", b+"|"+stuckKey(sr.Stuck), fmt.Sprintf("every unfinished task waits: %v", sr.Stuck))
			return o
		}
		if sr.Reason == "watchdog" && len(sr.Blocked) > 0 {
			// the scheduler parks tasks with no lock held: a goroutine that sits on a real
			// lock or channel inside gorm when the watchdog fires will never get it
			report("deadlock", "blocked_in_gorm|"+sr.Blocked[0], fmt.Sprintf("the run stopped making progress; blocked inside gorm, not parked by the scheduler: %v", sr.Blocked))
			return o
		}
		o.Trouble = "run aborted: " + sr.Reason + " " + strings.Join(sr.Stuck, "; ")
		return o
	}
	if res.closeHung {
		report("deadlock", "blocked_in_gorm|Close after the run", "every task returned, yet PreparedStmtDB.Close called afterwards (nothing else running) did not return: a lock taken during the run was never released")
		return o
	}
	if res.trouble != "" {
		o.Trouble = res.trouble
		return o
	}
	if len(res.panics) > 0 {
		if report("panic", firstWords(res.panics[0], 8), strings.Join(res.panics, "; ")) {
			return o
		}
	}
	// ---- transparency
	var firstClose int64 = -1
	resetSeen := false
	for _, r := range res.recs {
		if r.Kind == "close" && (firstClose < 0 || r.Call < firstClose) {
			firstClose = r.Call
		}
		if r.Kind == "reset" {
			resetSeen = true
		}
	}
	badConnFired := false
	for _, f := range c.Faults {
		if f.Type == "bad_conn" && res.fired[f.ID] != 0 {
			badConnFired = true
		}
	}
	var hist []porcupine.Operation
	for _, r := range res.recs {
		switch r.Kind {
		case "close":
			hist = append(hist, porcupine.Operation{ClientId: r.Task, Input: hInput{close: true}, Call: r.Call, Output: hOutput{}, Return: r.Return})
			continue
		case "reset":
			continue
		case "readback":
			// the transaction reads its own uncommitted row: the value, an injected
			// fault or a closed-cache error; never "no rows" (that is another connection's view)
			switch {
			case r.Err == "" && r.Result != r.Want:
				if report("wrong_rows", "readback", fmt.Sprintf("task %d: the writer's transaction read back %q for the row it had just written with %q", r.Task, r.Result, r.Want)) {
					return o
				}
			case strings.Contains(r.Err, "no rows in result set"):
				if report("wrong_rows", "readback|own_write_invisible", fmt.Sprintf("task %d: the writer's transaction does not see the row it has just written (%q returned %q): the statement did not run on the transaction's connection", r.Task, readBackText, r.Err)) {
					return o
				}
			case r.Err == "" || strings.Contains(r.Err, "simfault#") || isClosedErr(r.Err) || strings.Contains(r.Err, "bad connection") || strings.Contains(r.Err, simpool.ErrAborted.Error()):
			default:
				if report("unexpected_error", "readback|"+firstWords(r.Err, 5), fmt.Sprintf("task %d: the writer's read-back returned %q", r.Task, r.Err)) {
					return o
				}
			}
			continue
		}
		if r.Err == "" {
			if r.Kind == "use" {
				want := r.Want
				if r.Result != want {
					if report("wrong_rows", fmt.Sprintf("text%d", r.Text), fmt.Sprintf("task %d: %q returned %q, non-prepared mode returns %q", r.Task, texts[r.Text], r.Result, want)) {
						return o
					}
				}
				hist = append(hist, porcupine.Operation{ClientId: r.Task, Input: hInput{}, Call: r.Call, Output: hOutput{}, Return: r.Return})
			}
			continue
		}
		switch {
		case strings.Contains(r.Err, "simfault#"):
			// an injected Prepare failure: legitimate for the preparer and for every
			// task that waited on its in-progress entry, i.e. operations that started
			// before the failing operation returned — it must not be cached
			ok := false
			for _, f := range c.Faults {
				seq := res.fired[f.ID]
				if seq == 0 || !strings.Contains(r.Err, simdrv.Marker(f.ID)) {
					continue
				}
				for _, q := range res.recs {
					if q.Call <= seq && seq <= q.Return && r.Call <= q.Return {
						ok = true
					}
				}
			}
			if !ok {
				if report("failed_prepare_cached", fmt.Sprintf("text%d", r.Text), fmt.Sprintf("task %d: %q returned the injected Prepare error %q although it started after the failing preparation had returned", r.Task, texts[r.Text], r.Err)) {
					return o
				}
			}
		case strings.Contains(r.Err, "bad connection") && badConnFired:
		case strings.Contains(r.Err, simpool.ErrAborted.Error()):
		case isClosedErr(r.Err):
			hist = append(hist, porcupine.Operation{ClientId: r.Task, Input: hInput{}, Call: r.Call, Output: hOutput{closedErr: true}, Return: r.Return})
		default:
			if report("unexpected_error", firstWords(r.Err, 5), fmt.Sprintf("task %d: %s on %q returned %q, which is neither the expected rows, an injected fault nor a closed-cache error", r.Task, r.Kind, texts[r.Text], r.Err)) {
				return o
			}
		}
	}
	switch porcupine.CheckOperationsTimeout(closedModel, hist, 10*time.Second) {
	case porcupine.Illegal:
		// name the first offending operation for the key
		// An operation that obtained its cached statement before a Reset or an
		// ErrBadConn eviction returned may find it closed under it (known
		// finding); one that started after every Reset and eviction had returned
		// must not: the closed statement was left in the cache.
		detail, key := "", "closed_error_without_close"
		var ends []int64 // return times of Resets and of operations that returned ErrBadConn (they evicted)
		for _, q := range res.recs {
			if q.Kind == "reset" {
				ends = append(ends, q.Return)
				continue
			}
			if strings.Contains(q.Err, "bad connection") {
				ends = append(ends, q.Return) // this operation went through an ErrBadConn branch (eviction + go stmt.Close())
			}
		}
		for _, r := range res.recs {
			if r.Kind == "use" && isClosedErr(r.Err) && (firstClose < 0 || r.Return < firstClose) {
				overlaps := false
				for _, e := range ends {
					if r.Call <= e {
						overlaps = true
					}
				}
				if !overlaps {
					detail = fmt.Sprintf("task %d: %q (invoked at %d) returned %q; no Close precedes it and every Reset and ErrBadConn eviction of the run had returned before it started (%v): a closed statement stayed in the cache", r.Task, texts[r.Text], r.Call, r.Err, ends)
					key = fmt.Sprintf("stale_closed_statement|reset=%v|evict=%v", resetSeen, badConnFired)
					break
				}
				if detail == "" {
					detail = fmt.Sprintf("task %d: %q returned %q but no Close overlaps or precedes it (first Close invoked at %d, operation returned at %d; Reset in this run: %v)", r.Task, texts[r.Text], r.Err, firstClose, r.Return, resetSeen)
					key = fmt.Sprintf("closed_error_without_close|reset=%v|evict=%v", resetSeen, badConnFired)
				}
			}
		}
		if report("not_transparent", key, "the history of uses and Close is not linearizable against the open/closed model: "+detail) {
			return o
		}
	case porcupine.Unknown:
		o.Count("porcupine_timeouts", 1)
	}
	// ---- prepared at most once per generation and text
	if cl, key, det := preparedOnce(c, res); cl != "" {
		if report(cl, key, det) {
			return o
		}
	}
	// ---- a failed preparation is reported to everyone who waited for it
	if cl, key, det := failedPrepareReported(c, res); cl != "" {
		if report(cl, key, det) {
			return o
		}
	}
	// ---- writer rows
	want := "base=0;"
	sort.Slice(res.wrote, func(i, j int) bool { return res.wrote[i][0] < res.wrote[j][0] })
	seen := map[string]bool{}
	for _, kv := range res.wrote {
		if !seen[kv[0]] {
			seen[kv[0]] = true
		}
	}
	_ = want
	for _, kv := range res.wrote {
		if !strings.Contains(res.kvs, kv[0]+"="+kv[1]+";") {
			if report("lost_write", "writer", fmt.Sprintf("committed row %s=%s is missing: %s", kv[0], kv[1], res.kvs)) {
				return o
			}
		}
	}
	// ---- leak freedom
	if res.open.OpenStmts != 0 || res.inUse != 0 || res.open.OpenTx != 0 || res.open.OpenRows != 0 {
		k := leakKey(res)
		if report("leak", k, fmt.Sprintf("after every cache instance was closed: open driver statements=%d, transactions=%d, row sets=%d, connections in use=%d; never closed: %s", res.open.OpenStmts, res.open.OpenTx, res.open.OpenRows, res.inUse, k)) {
			return o
		}
	}
	return o
}

// explained reports whether a Reset/Close call overlaps [from, to] or an
// ErrBadConn eviction of the text fired inside it.
func explained(c *Case, res *result, text string, from, to int64) bool {
	for _, r := range res.recs {
		if r.Kind == "reset" && r.Call <= to && r.Return >= from {
			return true
		}
		if r.Kind == "close" && r.Call <= to {
			return true // Close ends the cache's life; what a handle revived by a later Reset does is not specified
		}
	}
	for _, f := range c.Faults {
		if f.Type == "bad_conn" && f.SQL == text {
			if seq := res.fired[f.ID]; seq != 0 && seq <= to {
				return true
			}
		}
	}
	return false
}

type prep struct {
	text       string
	start, end int64
	inTx, ok   bool
}

// preparedOnce: per cache generation and text at most one pool-bound Prepare
// reaches the pool, and a transaction-bound one only if no pool-bound entry
// existed when it was requested.
func preparedOnce(c *Case, res *result) (string, string, string) {
	var preps []prep
	open := map[int]*prep{}
	for _, ev := range res.pool {
		switch ev.Kind {
		case "prepare_start":
			open[ev.Task] = &prep{text: ev.SQL, start: ev.Seq, inTx: ev.InTx}
		case "prepare":
			if pr := open[ev.Task]; pr != nil {
				pr.end, pr.ok = ev.Seq, ev.Err == ""
				preps = append(preps, *pr)
				delete(open, ev.Task)
			}
		}
	}
	// a preparation belongs to the cache generation in which its entry was
	// published, which is no earlier than the start of the operation that made it
	for i := range preps {
		for _, r := range res.recs {
			if r.Kind == "use" && r.Call <= preps[i].start && preps[i].start <= r.Return && r.Call < preps[i].start {
				if cl := preps[i].end; cl <= r.Return || cl == 0 {
					preps[i].start = r.Call
				}
			}
		}
	}
	for i, a := range preps {
		if !a.ok || a.inTx {
			continue
		}
		for _, b := range preps[i+1:] {
			if !b.ok || b.text != a.text || explained(c, res, a.text, a.start, b.end) {
				continue
			}
			if !b.inTx {
				return "prepared_twice", fmt.Sprintf("pool_bound|session_mode=%v", c.SessionMode), fmt.Sprintf("%q reached the pool's PrepareContext twice (events %d..%d and %d..%d) with no Reset, Close or ErrBadConn eviction in between", a.text, a.start, a.end, b.start, b.end)
			}
			if b.start > a.end {
				return "prepared_twice", fmt.Sprintf("tx_bound_after_pool_bound|session_mode=%v", c.SessionMode), fmt.Sprintf("%q was prepared again on a transaction (events %d..%d) although a pool-bound entry existed since event %d and no Reset, Close or eviction intervened", a.text, b.start, b.end, a.end)
			}
		}
	}
	return "", "", ""
}

// failedPrepareReported: a task that started to wait on the in-progress entry of a text
// while another task's Prepare of that text was inside the pool, and that Prepare then
// failed with an injected error, must return that error (the entry in the map at that
// moment is the preparer's: there is one entry per text).
func failedPrepareReported(c *Case, res *result) (string, string, string) {
	// Which entry a waiter waited for is only certain while there is one map with one
	// entry per text that nobody replaces: no Reset or Close anywhere in the run (they
	// swap the map, also between an entry's publication and its Prepare reaching the
	// pool), no session siblings (their maps part at the first Reset), and a
	// pool-bound failing entry (a transaction-bound one is replaced by the first
	// caller outside a transaction).
	if c.SessionMode {
		return "", "", ""
	}
	for _, r := range res.recs {
		if r.Kind == "reset" || r.Kind == "close" {
			return "", "", ""
		}
	}
	// every preparation that reached the pool, as an interval
	type span struct {
		task     int
		text     string
		from, to int64
	}
	var spans []span
	{
		o := map[int]*span{}
		for _, ev := range res.pool {
			switch ev.Kind {
			case "prepare_start":
				o[ev.Task] = &span{task: ev.Task, text: ev.SQL, from: ev.Seq, to: 1 << 62}
			case "prepare":
				if sp := o[ev.Task]; sp != nil {
					sp.to = ev.Seq
					spans = append(spans, *sp)
					delete(o, ev.Task)
				}
			}
		}
		for _, sp := range o {
			spans = append(spans, *sp)
		}
	}
	open := map[int]*prep{}
	for _, ev := range res.pool {
		switch ev.Kind {
		case "prepare_start":
			open[ev.Task] = &prep{text: ev.SQL, start: ev.Seq, inTx: ev.InTx}
		case "prepare":
			pr := open[ev.Task]
			delete(open, ev.Task)
			if pr == nil || ev.Err == "" || pr.inTx {
				continue
			}
			marker := ""
			for _, f := range c.Faults {
				if f.Kind == "prepare" && f.Type == "err" && strings.Contains(ev.Err, simdrv.Marker(f.ID)) {
					marker = simdrv.Marker(f.ID)
				}
			}
			if marker == "" {
				continue
			}
			// another preparation of the same text in flight at the same time (session
			// siblings whose maps a Reset has separated, a transaction-bound entry): which
			// one a waiter waited for cannot be told
			ambiguous := false
			for _, sp := range spans {
				if sp.task != ev.Task && sp.text == pr.text && sp.from < ev.Seq && sp.to > pr.start {
					ambiguous = true
				}
			}
			if ambiguous {
				continue
			}
			for _, w := range res.waits {
				if w.Task == ev.Task || !strings.HasPrefix(w.Point, "prepare:") || w.Seq <= pr.start || w.Seq >= ev.Seq {
					continue
				}
				for _, r := range res.recs {
					if r.Task != w.Task || r.Kind != "use" || r.Call > w.Seq || r.Return < w.Seq || texts[r.Text] != pr.text {
						continue
					}
					if explained(c, res, pr.text, pr.start, r.Return) || strings.Contains(r.Err, marker) {
						continue
					}
					// Row(): a failed preparation makes QueryRowContext run the text unprepared on
					// the pool (fix F6: a *sql.Row cannot carry the error) - the preparer's own
					// operation does not report it either
					fellBack := false
					for _, pe := range res.pool {
						if pe.Task == r.Task && pe.Kind == "query_row" && pe.SQL == pr.text && pe.Seq >= r.Call && pe.Seq <= r.Return {
							fellBack = true
						}
					}
					if fellBack {
						continue
					}
					return "failed_prepare_not_reported", fmt.Sprintf("waiter|in_tx=%v|session_mode=%v", r.InTx, c.SessionMode), fmt.Sprintf("task %d's Prepare of %q failed with the injected error %q (events %d..%d); task %d had started to wait for that preparation (%s, event %d) but its operation returned err=%q rows=%q instead of the preparation's error", ev.Task, pr.text, ev.Err, pr.start, ev.Seq, r.Task, w.Point, w.Seq, r.Err, r.Result)
				}
			}
		}
	}
	return "", "", ""
}

func leakKey(res *result) string {
	closed := map[int]bool{}
	for _, ev := range res.events {
		if ev.Kind == "stmt_close" {
			closed[ev.StmtN] = true
		}
	}
	set := map[string]bool{}
	for _, ev := range res.events {
		if ev.Kind == "prepare" && ev.Err == "" && !closed[ev.StmtN] {
			set[firstWords(ev.SQL, 4)] = true
		}
	}
	var l []string
	for k := range set {
		l = append(l, k)
	}
	sort.Strings(l)
	return strings.Join(l, ",")
}

// stuckKey is the set of things the deadlocked tasks wait for.
func stuckKey(st []string) string {
	set := map[string]bool{}
	for _, s := range st {
		i := strings.Index(s, "waits for ")
		if i < 0 {
			continue
		}
		what := s[i+10:]
		switch {
		case strings.HasPrefix(what, "prepare:"):
			what = "inprogress-prepare"
		case strings.HasPrefix(what, "closer:"):
			what = "closer"
		}
		set[what] = true
	}
	if set["inprogress-prepare"] && set["pool slot"] {
		// the cycle "a transaction holds the last connection and waits for an in-progress
		// preparation, whose Prepare waits for a connection"; whoever else is stuck behind it is incidental
		return "inprogress-prepare+pool slot"
	}
	var w []string
	for k := range set {
		w = append(w, k)
	}
	sort.Strings(w)
	return strings.Join(w, "+")
}

func firstWords(s string, n int) string {
	f := strings.Fields(s)
	if len(f) > n {
		f = f[:n]
	}
	return strings.Join(f, " ")
}

var _ = errors.New

// watchdog is the wall-clock limit of one scheduled run (a run takes
// milliseconds; race builds are an order of magnitude slower).
func watchdog() time.Duration {
	if core.RaceBuild {
		return 20 * time.Second
	}
	return 8 * time.Second
}
