// Package c04: Transaction blocks and manual Begin…Commit/Rollback sequences
// commit everything on success and nothing on error, panic or failed commit.
//
// One task.  A case is a tree of db.Transaction blocks (or a flat manual
// script); it is executed in lock-step with a snapshot-stack reference model,
// first fault-free, then once per driver call of the fault-free run with that
// call failing (thorough: also pairs "statement fault + fault on the clean-up
// statement it triggers").
package c04

import (
	"context"
	"database/sql"
	"encoding/json"
	"fmt"
	"runtime"
	"sort"
	"strings"

	"gorm.io/gorm"

	"verif/sim/core"
	"verif/sim/env"
	"verif/sim/fam"
	"verif/sim/ops"
	"verif/sim/simdrv"
	"verif/sim/simpool"
	"verif/sim/simrt"
)

type Step struct {
	Kind    string `json:"kind"` // write read child savepoint rollback_to
	Op      string `json:"op,omitempty"`
	K       string `json:"k,omitempty"`
	V       string `json:"v,omitempty"`
	Child   *Block `json:"child,omitempty"`
	Swallow bool   `json:"swallow,omitempty"` // parent ignores the child's error and goes on
	Recover bool   `json:"recover,omitempty"` // parent recovers the child's panic and goes on
	Name    string `json:"name,omitempty"`
	// Via: the write/read goes through a handle derived from the block's tx:
	// "" the tx itself, session, newdb, prepare (Session{PrepareStmt:true}), ctx (WithContext), debug, skiphooks
	Via string `json:"via,omitempty"`
}

type Block struct {
	Steps   []Step `json:"steps"`
	Outcome string `json:"outcome"` // nil error adderror panic
}

type Case struct {
	Tree          *Block      `json:"tree,omitempty"`
	Manual        []Step      `json:"manual,omitempty"`
	ManualEnd     string      `json:"manual_end,omitempty"` // commit rollback
	Prepare       bool        `json:"prepare_stmt"`
	DisableNested bool        `json:"disable_nested"`
	SkipDefault   bool        `json:"skip_default_tx"`
	RefuseCommit  bool        `json:"refuse_commit,omitempty"` // with pool_shim: the wrapper's Commit fails before reaching *sql.Tx
	ValueTx       bool        `json:"value_tx,omitempty"`      // with pool_shim: the wrapper's BeginTx returns its transaction by value
	PoolShim      bool        `json:"pool_shim"`               // gorm is opened on a ConnPool wrapper (ConnPoolBeginner path) instead of *sql.DB
	HandleErr     bool        `json:"handle_err,omitempty"`    // the handle the program starts from already carries an error (an earlier failure)
	ErrClass      string      `json:"err_class,omitempty"`     // injected driver errors wrap this well-known error (simdrv.ClassError)
	MaxSites      int         `json:"max_sites"`
	Pairs         bool        `json:"pairs"`
	Pick          int64       `json:"pick_seed"`
	Only          []ops.Fault `json:"only,omitempty"`
	ctxProbe      bool        // run from a context-bound handle on the pool shim (lists the cancellation sites)
}

type Prop struct{}

func (Prop) ID() string    { return "C04" }
func (Prop) Level() string { return "fault_enumeration" }
func (Prop) Rule() string {
	return "a case is a seeded tree of db.Transaction blocks (depth<=4, outcomes nil/error/panic per block, swallow/propagate per child, unique-valued writes and read-backs between children) or a manual Begin/SavePoint/RollbackTo/Commit/Rollback script (ending in Commit, Rollback, or Rollback followed by Commit), x {PrepareStmt, DisableNestedTransaction, SkipDefaultTransaction}; it runs fault-free against a snapshot-stack model, then once per driver call (BEGIN, SAVEPOINT, ROLLBACK TO, every statement, COMMIT, Prepare) x fault type; and once per call into the connection pool with the caller's context cancelled just before it (oracle: nothing durable, and Transaction / Commit report an error); thorough adds pairs (fault + fault on the clean-up statement it triggers). An evaluation is one simulated run; non-trivial = a fault fired or a block failed/panicked; distinct = distinct hash of (driver event sequence, outcome)"
}
func (Prop) Assumptions() []string {
	return []string{
		"SQLite transaction and savepoint semantics are the reference for what a rolled back scope undoes",
		"the dialector shim reports SAVEPOINT/ROLLBACK TO errors (as the mysql/postgres dialectors do; sqlite v1.5.6 swallows them)",
		"after a delivered SAVEPOINT/ROLLBACK TO fault the handle may refuse later statements (they must then fail without effect); if ROLLBACK TO itself was refused the child's writes may survive",
	}
}

// ---------------------------------------------------------------- generation

type gen struct {
	r      *core.Rand
	n      int
	blocks int
	writes int
	keys   []string
}

var vias = []string{"session", "newdb", "prepare", "prepare", "ctx", "debug", "skiphooks", "reuse", "reuse"}

func (g *gen) via() string {
	if g.r.Chance(25) {
		return g.r.Pick(vias)
	}
	return ""
}

// readVia: reads also go through Row().
func (g *gen) readVia() string {
	if g.r.Chance(30) {
		return "row"
	}
	return g.via()
}

// derive returns the handle a step runs on.
func derive(tx *gorm.DB, via string) *gorm.DB {
	switch via {
	case "session":
		return tx.Session(&gorm.Session{})
	case "newdb":
		return tx.Session(&gorm.Session{NewDB: true})
	case "prepare":
		return tx.Session(&gorm.Session{PrepareStmt: true})
	case "ctx":
		return tx.WithContext(context.WithValue(context.Background(), viaKey{}, "step"))
	case "debug":
		return tx.Debug()
	case "skiphooks":
		return tx.Session(&gorm.Session{SkipHooks: true})
	}
	return tx
}

type viaKey struct{}

func (g *gen) write() Step {
	g.n++
	g.writes++
	st := Step{Kind: "write", V: fmt.Sprintf("v%d", g.n), Via: g.via()}
	switch x := g.r.Intn(10); {
	case x < 5 || len(g.keys) == 0:
		st.Op, st.K = "insert", fmt.Sprintf("k%d", g.n)
		if g.r.Chance(8) && len(g.keys) > 0 {
			st.K = g.r.Pick(g.keys) // duplicate key: a genuine constraint error
		} else {
			g.keys = append(g.keys, st.K)
		}
	case x < 8:
		st.Op, st.K = "update", g.r.Pick(g.keys)
	default:
		st.Op, st.K = "delete", g.r.Pick(g.keys)
	}
	if st.Op == "insert" && st.Via != "reuse" && g.r.Chance(15) {
		// three records in batches of one, the last one under the step's key (which may
		// exist: then the third batch fails after two were written); the block may
		// handle that error and go on
		st.Op = "batches"
		if len(g.keys) > 1 && g.r.Chance(50) {
			st.K = g.r.Pick(g.keys)
		}
		st.Swallow = g.r.Chance(60)
	}
	return st
}

func (g *gen) block(depth int) *Block {
	g.blocks++
	b := &Block{}
	switch x := g.r.Intn(10); {
	case x < 5:
		b.Outcome = "nil"
	case x < 7:
		b.Outcome = "error"
	case x < 8:
		b.Outcome = "adderror" // `return tx.AddError(err)`: the error is also left on the handle the block was given
	default:
		b.Outcome = "panic"
		if g.r.Chance(30) {
			b.Outcome = "panic_op" // the panic comes from inside an operation of the block (a hook), not from the block's own code
		} else if g.r.Chance(20) {
			b.Outcome = "goexit" // the goroutine ends inside the block (runtime.Goexit, what t.Fatal does): deferred calls run, recover() sees nothing
		}
	}
	n := g.r.Range(1, 5)
	for i := 0; i < n; i++ {
		switch x := g.r.Intn(10); {
		case x < 5 && g.writes < 30:
			b.Steps = append(b.Steps, g.write())
		case x < 7:
			b.Steps = append(b.Steps, Step{Kind: "read", Via: g.readVia()})
		case depth < 4 && g.blocks < 12:
			b.Steps = append(b.Steps, Step{Kind: "child", Child: g.block(depth + 1), Swallow: g.r.Chance(60), Recover: g.r.Chance(50)})
		default:
			b.Steps = append(b.Steps, Step{Kind: "read", Via: g.readVia()})
		}
	}
	return b
}

func (Prop) Gen(r *core.Rand, tier string) interface{} {
	c := &Case{Prepare: r.Chance(35), DisableNested: r.Chance(25), SkipDefault: r.Chance(30), PoolShim: r.Chance(30), Pick: r.Int63()}
	c.ValueTx = c.PoolShim && r.Chance(30)
	c.RefuseCommit = c.PoolShim && r.Chance(25)
	g := &gen{r: r, keys: []string{"base"}}
	if r.Chance(75) {
		c.Tree = g.block(1)
		if r.Chance(60) {
			c.Tree.Outcome = "nil" // bias: a committing outermost block makes inner rollbacks observable
		}
	} else {
		names := []string{"a", "b", "c"}
		n := r.Range(2, 9)
		for i := 0; i < n; i++ {
			switch x := r.Intn(10); {
			case x < 5:
				c.Manual = append(c.Manual, g.write())
			case x < 6:
				c.Manual = append(c.Manual, Step{Kind: "read", Via: g.readVia()})
			case x < 8:
				c.Manual = append(c.Manual, Step{Kind: "savepoint", Name: r.Pick(names)})
			default:
				c.Manual = append(c.Manual, Step{Kind: "rollback_to", Name: r.Pick(names)})
			}
		}
		c.ManualEnd = "commit"
		if r.Chance(25) {
			c.ManualEnd = "rollback"
			if r.Chance(40) {
				c.ManualEnd = "rollback_commit"
			}
		}
	}
	if tier == "thorough" {
		c.Pairs = true
	} else {
		c.MaxSites = 40
	}
	if r.Chance(40) {
		c.ErrClass = r.Pick(simdrv.Classes)
	}
	c.HandleErr = r.Chance(8)
	return c
}

func (Prop) Decode(raw json.RawMessage) (interface{}, error) {
	c := &Case{}
	return c, json.Unmarshal(raw, c)
}

// ---------------------------------------------------------------- shrinking

func shrinkBlock(b *Block) []*Block {
	var out []*Block
	for i := range b.Steps {
		v := &Block{Outcome: b.Outcome, Steps: append(append([]Step{}, b.Steps[:i]...), b.Steps[i+1:]...)}
		out = append(out, v)
		if b.Steps[i].Kind == "child" {
			for _, sc := range shrinkBlock(b.Steps[i].Child) {
				v := &Block{Outcome: b.Outcome, Steps: append([]Step{}, b.Steps...)}
				v.Steps[i].Child = sc
				out = append(out, v)
			}
			// replace the child by its steps (flatten)
			flat := append(append(append([]Step{}, b.Steps[:i]...), b.Steps[i].Child.Steps...), b.Steps[i+1:]...)
			out = append(out, &Block{Outcome: b.Outcome, Steps: flat})
		}
	}
	if b.Outcome != "nil" {
		out = append(out, &Block{Outcome: "nil", Steps: b.Steps})
	}
	return out
}

func (Prop) Shrink(ci interface{}) []interface{} {
	c := ci.(*Case)
	var out []interface{}
	reset := func(v *Case) *Case { v.Only, v.MaxSites = nil, 0; return v }
	if c.Tree != nil {
		for _, sb := range shrinkBlock(c.Tree) {
			v := *c
			v.Tree = sb
			out = append(out, reset(&v))
		}
	}
	for i := range c.Manual {
		v := *c
		v.Manual = append(append([]Step{}, c.Manual[:i]...), c.Manual[i+1:]...)
		out = append(out, reset(&v))
	}
	for _, f := range []func(v *Case) bool{
		func(v *Case) bool { x := v.Prepare; v.Prepare = false; return x },
		func(v *Case) bool { x := v.DisableNested; v.DisableNested = false; return x },
		func(v *Case) bool { x := v.SkipDefault; v.SkipDefault = false; return x },
		func(v *Case) bool { x := v.ValueTx; v.ValueTx = false; return x },
		func(v *Case) bool { x := v.RefuseCommit; v.RefuseCommit = false; return x },
		func(v *Case) bool { x := v.PoolShim && !v.ValueTx && !v.RefuseCommit; v.PoolShim = false; return x },
		func(v *Case) bool { x := v.ErrClass != ""; v.ErrClass = ""; return x },
		func(v *Case) bool { x := v.HandleErr; v.HandleErr = false; return x },
	} {
		v := *c
		if f(&v) {
			out = append(out, reset(&v))
		}
	}
	if len(c.Only) > 1 {
		for i := range c.Only {
			v := *c
			v.Only = []ops.Fault{c.Only[i]}
			out = append(out, &v)
		}
	}
	return out
}

// ---------------------------------------------------------------- model

// world is one possible database state: a stack of snapshots (index 0 = durable).
type world []map[string]string

func cp(m map[string]string) map[string]string {
	n := make(map[string]string, len(m))
	for k, v := range m {
		n[k] = v
	}
	return n
}

func (w world) top() map[string]string { return w[len(w)-1] }
func (w world) clone() world {
	n := make(world, len(w))
	for i := range w {
		n[i] = cp(w[i])
	}
	return n
}

func render(m map[string]string) string {
	ks := make([]string, 0, len(m))
	for k := range m {
		ks = append(ks, k)
	}
	sort.Strings(ks)
	var b strings.Builder
	for _, k := range ks {
		b.WriteString(k + "=" + m[k] + ";")
	}
	return b.String()
}

var errHandle = fmt.Errorf("earlier failure on this handle")

type panicVal struct{ id int }
type blockErr struct{ id int }

func (e *blockErr) Error() string { return fmt.Sprintf("block error #%d", e.id) }

type run struct {
	overflow bool // the model had to drop possible states: it no longer judges this run
	c        *Case
	e        *env.Env
	faults   []*simdrv.Fault
	worlds   []world
	relaxed  bool // a SAVEPOINT / ROLLBACK TO fault was delivered
	viol     *core.Violation
	nextID   int
	failed   int // blocks that failed or panicked
	sps      [][]spEntry
	// cancellation runs: the lock-step model is off (every statement after the
	// cancellation fails), the oracle is "nothing durable and an error reported"
	cancelMode   bool
	topErr       error // what the outermost Transaction call returned
	topReturned  bool
	commitCalled bool // manual script: Commit() was reached
	commitErr    error
	goexited     bool     // a block ended its goroutine (runtime.Goexit)
	prevRes      *gorm.DB // what the previous write returned, and the block handle it was issued on
	prevTx       *gorm.DB
	prevOp       string
}

type spEntry struct {
	name string
	snap map[string]string
}

func (r *run) fail(class, key, detail string) {
	if r.cancelMode || r.overflow {
		return
	}
	if r.viol == nil {
		r.viol = &core.Violation{Class: class, Key: key, Detail: detail}
	}
}

func (r *run) firedTotal() int {
	n := 0
	for _, f := range r.faults {
		n += f.Fired
	}
	return n
}

// firedSince lists faults whose Fired counter grew beyond the given snapshot.
func (r *run) snapshot() []int {
	s := make([]int, len(r.faults))
	for i, f := range r.faults {
		s[i] = f.Fired
	}
	return s
}
func (r *run) firedSince(s []int) []*simdrv.Fault {
	var out []*simdrv.Fault
	for i, f := range r.faults {
		if f.Fired > s[i] {
			out = append(out, f)
		}
	}
	return out
}

func isSavepointSQL(q string) bool {
	return strings.HasPrefix(q, "SAVEPOINT ") || strings.HasPrefix(q, "ROLLBACK TO ")
}

func (r *run) push() {
	for i := range r.worlds {
		r.worlds[i] = append(r.worlds[i], cp(r.worlds[i].top()))
	}
}

// pop ends a scope: keep merges its state into the parent, otherwise it is dropped;
// both splits every world in two.
func (r *run) pop(keep, both bool) {
	var out []world
	for _, w := range r.worlds {
		n := len(w)
		if both || !keep {
			d := w.clone()
			out = append(out, d[:n-1])
		}
		if both || keep {
			k := w.clone()
			k[n-2] = k[n-1]
			out = append(out, k[:n-1])
		}
	}
	r.worlds = r.limit(out)
}

// limit removes duplicate worlds; more than maxWorlds different ones end the model's
// say for this run (dropping some could drop the true one).
func (r *run) limit(ws []world) []world {
	seen := map[string]bool{}
	var out []world
	for _, w := range ws {
		k := fmt.Sprint(w)
		if !seen[k] {
			seen[k] = true
			out = append(out, w)
		}
	}
	if len(out) > maxWorlds {
		r.overflow = true
		out = out[:maxWorlds]
	}
	return out
}

const maxWorlds = 64

// filter keeps the worlds for which ok holds; none left is a violation.
func (r *run) filter(ok func(w world) bool, class, key, detail string) {
	var out []world
	for _, w := range r.worlds {
		if ok(w) {
			out = append(out, w)
		}
	}
	if len(out) == 0 {
		r.fail(class, key, detail)
		return
	}
	r.worlds = out
}

func (r *run) cfgKey() string {
	return fmt.Sprintf("prepare=%v,nonested=%v,skipdefault=%v,poolshim=%v", r.c.Prepare, r.c.DisableNested, r.c.SkipDefault, r.c.PoolShim)
}

// write executes one write step through tx and advances the model.
func (r *run) write(tx *gorm.DB, st Step, where string) error {
	blockTx := tx
	if st.Via == "reuse" {
		// the write goes through the *gorm.DB the previous write of this block returned
		// (`res := tx.Create(&a); res.Create(&b)`): it must stay inside the transaction
		// only insert after insert: any other reuse accumulates the conditions of the
		// previous statement, which gorm documents
		if r.prevRes != nil && r.prevTx == blockTx && r.prevRes.Error == nil && r.prevOp == "insert" && st.Op == "insert" {
			tx = r.prevRes
		}
	} else {
		tx = derive(tx, st.Via)
	}
	snap := r.snapshot()
	var res *gorm.DB
	defer func() { r.prevRes, r.prevTx, r.prevOp = res, blockTx, st.Op }()
	if st.Op == "batches" {
		return r.writeBatches(tx, st, where, snap, &res)
	}
	switch st.Op {
	case "insert":
		res = tx.Create(&fam.KV{K: st.K, V: st.V})
	case "update":
		res = tx.Model(&fam.KV{}).Where("k = ?", st.K).Update("v", st.V)
	default:
		res = tx.Where("k = ?", st.K).Delete(&fam.KV{})
	}
	fired := r.firedSince(snap)
	apply := func(w world) {
		switch st.Op {
		case "insert":
			w.top()[st.K] = st.V
		case "update":
			if _, ok := w.top()[st.K]; ok {
				w.top()[st.K] = st.V
			}
		default:
			delete(w.top(), st.K)
		}
	}
	if res.Error != nil {
		if len(fired) > 0 {
			for _, f := range fired {
				if f.Type == "applied_err" {
					for _, w := range r.worlds {
						_, exists := w.top()[st.K]
						if st.Op != "insert" || !exists {
							apply(w)
						}
					}
				}
			}
			return res.Error
		}
		if st.Op == "insert" {
			// a duplicate key is a genuine error in the worlds where the key exists
			dup := false
			for _, w := range r.worlds {
				if _, ok := w.top()[st.K]; ok {
					dup = true
				}
			}
			if dup {
				r.filter(func(w world) bool { _, ok := w.top()[st.K]; return ok }, "", "", "")
				return res.Error
			}
		}
		if r.relaxed {
			return res.Error // the handle refuses statements after a savepoint fault: no effect, error reported
		}
		r.fail("tx_unusable", where+"|"+st.Op, fmt.Sprintf("%s: %s of %s failed with %q although no fault was injected into it (%s)", where, st.Op, st.K, res.Error, r.cfgKey()))
		return res.Error
	}
	// success: must be consistent with at least one world
	switch st.Op {
	case "insert":
		r.filter(func(w world) bool { _, ok := w.top()[st.K]; return !ok }, "unexpected_success", where+"|insert", fmt.Sprintf("%s: insert of existing key %s succeeded", where, st.K))
	default:
		want := res.RowsAffected
		r.filter(func(w world) bool {
			_, ok := w.top()[st.K]
			return (ok && want == 1) || (!ok && want == 0)
		}, "read_mismatch", where+"|"+st.Op+"_rows", fmt.Sprintf("%s: %s of %s affected %d rows, the model disagrees (%s)", where, st.Op, st.K, want, r.cfgKey()))
	}
	for _, w := range r.worlds {
		apply(w)
	}
	return nil
}

// writeBatches: CreateInBatches of three records in batches of one, inside the
// transaction.  It is a unit of its own (gorm wraps the batches in a nested block):
// when a batch fails the earlier batches are undone - unless nested transactions are
// disabled or default transactions are skipped, when nothing is undone by itself.
func (r *run) writeBatches(tx *gorm.DB, st Step, where string, snap []int, out **gorm.DB) error {
	items := []fam.KV{{K: st.K + "#1", V: st.V}, {K: st.K + "#2", V: st.V}, {K: st.K, V: st.V}}
	res := tx.CreateInBatches(&items, 1)
	*out = res
	fired := r.firedSince(snap)
	// per world: the first batch that hits an existing key fails
	failAt := func(w world) int {
		for j, it := range items {
			if _, ok := w.top()[it.K]; ok {
				return j
			}
		}
		return -1
	}
	applyPrefix := func(w world, n int) {
		for _, it := range items[:n] {
			w.top()[it.K] = it.V
		}
	}
	bare := r.c.DisableNested || r.c.SkipDefault
	if len(fired) > 0 {
		// a fault inside: any prefix of the batches may have stayed (an undo that was
		// refused, an insert applied before its error)
		var worlds []world
		for _, w := range r.worlds {
			max := failAt(w)
			if max < 0 {
				max = len(items)
			}
			if res.Error == nil {
				// the call succeeded after all (database/sql retries a bad connection): every batch is in
				if max == len(items) {
					d := w.clone()
					applyPrefix(d, len(items))
					worlds = append(worlds, d)
				}
				continue
			}
			for n := 0; n <= max; n++ {
				if n == len(items) && !hasType(fired, "applied_err") && !hasType(fired, "ack_lost") {
					continue
				}
				d := w.clone()
				applyPrefix(d, n)
				worlds = append(worlds, d)
			}
		}
		if len(worlds) == 0 {
			r.fail("unexpected_success", where+"|batches", fmt.Sprintf("%s: CreateInBatches under %s succeeded although one of its keys exists in every state the model allows", where, st.K))
			return res.Error
		}
		r.worlds = r.limit(worlds)
		r.relaxed = r.relaxed || res.Error != nil
		return res.Error
	}
	if res.Error != nil {
		any := false
		for _, w := range r.worlds {
			any = any || failAt(w) >= 0
		}
		if !any && r.relaxed {
			return res.Error // the handle refuses statements after a savepoint fault: no effect, error reported
		}
		r.filter(func(w world) bool { return failAt(w) >= 0 }, "tx_unusable", where+"|batches", fmt.Sprintf("%s: CreateInBatches under %s failed with %q although no fault was injected and no key exists (%s)", where, st.K, res.Error, r.cfgKey()))
		if bare {
			for _, w := range r.worlds {
				if n := failAt(w); n > 0 {
					applyPrefix(w, n)
				}
			}
		}
		return res.Error
	}
	r.filter(func(w world) bool { return failAt(w) < 0 }, "unexpected_success", where+"|batches", fmt.Sprintf("%s: CreateInBatches under %s succeeded although one of its keys exists", where, st.K))
	for _, w := range r.worlds {
		applyPrefix(w, len(items))
	}
	return nil
}

func hasType(fs []*simdrv.Fault, typ string) bool {
	for _, f := range fs {
		if f.Type == typ {
			return true
		}
	}
	return false
}

// read checks that the block sees exactly the model's current state.
func (r *run) read(tx *gorm.DB, where string) error { return r.readVia(tx, "", where) }

func (r *run) readVia(tx *gorm.DB, via, where string) error {
	if via == "row" {
		return r.readRow(tx, where)
	}
	if via == "reuse" {
		via = ""
	}
	tx = derive(tx, via)
	snap := r.snapshot()
	var kvs []fam.KV
	res := tx.Order("k").Find(&kvs)
	fired := r.firedSince(snap)
	if res.Error != nil {
		if len(fired) > 0 || r.relaxed {
			return res.Error
		}
		r.fail("tx_unusable", where+"|read", fmt.Sprintf("%s: read failed with %q although no fault was injected into it", where, res.Error))
		return res.Error
	}
	got := map[string]string{}
	for _, kv := range kvs {
		got[kv.K] = kv.V
	}
	g := render(got)
	var wants []string
	for _, w := range r.worlds {
		wants = append(wants, render(w.top()))
	}
	r.filter(func(w world) bool { return render(w.top()) == g }, "read_mismatch", where+"|read", fmt.Sprintf("%s: read-back inside the block returned {%s}, the model expects one of %q (faults fired during the read: %d; %s)", where, g, wants, len(fired), r.cfgKey()))
	return nil
}

// readRow reads the number of rows through Row() (the QueryRowContext path, and
// with PrepareStmt its unprepared fallback when the preparation fails): the
// transaction must see exactly its own state.
func (r *run) readRow(tx *gorm.DB, where string) error {
	snap := r.snapshot()
	var n int
	var err error
	if row := tx.Raw("SELECT count(*) FROM kvs WHERE k <> ?", "").Row(); row != nil {
		err = row.Scan(&n)
	} else {
		// gorm's Row() returns nil when the handle already carries an error (after a
		// delivered SAVEPOINT / ROLLBACK TO fault): a refused statement
		err = fmt.Errorf("Row() returned nil")
	}
	fired := r.firedSince(snap)
	if err != nil {
		if len(fired) > 0 || r.relaxed {
			return err
		}
		r.fail("tx_unusable", where+"|read_row", fmt.Sprintf("%s: Row().Scan failed with %q although no fault was injected into it", where, err))
		return err
	}
	var wants []string
	for _, w := range r.worlds {
		wants = append(wants, fmt.Sprint(len(w.top())))
	}
	r.filter(func(w world) bool { return len(w.top()) == n }, "read_mismatch", where+"|read_row", fmt.Sprintf("%s: Row() inside the block counted %d rows, the model expects one of %v (faults fired during the read: %d; %s)", where, n, wants, len(fired), r.cfgKey()))
	return nil
}

func (r *run) body(tx *gorm.DB, b *Block, depth int, path string) error {
	for i, st := range b.Steps {
		where := fmt.Sprintf("depth%d", depth)
		switch st.Kind {
		case "write":
			if err := r.write(tx, st, where); err != nil {
				if st.Op == "batches" && st.Swallow && !r.relaxed {
					continue // the block handles the failed batched create and goes on
				}
				return err
			}
		case "read":
			if err := r.readVia(tx, st.Via, where); err != nil {
				return err
			}
		case "child":
			var err error
			func() {
				if st.Recover {
					defer func() {
						if pv := recover(); pv != nil {
							if _, ok := pv.(*panicVal); !ok {
								r.fail("panic_changed", where, fmt.Sprintf("a nested block's panic reached its parent with value %v (%T)", pv, pv))
							}
						}
					}()
				}
				err = r.block(tx, st.Child, depth+1, fmt.Sprintf("%s.%d", path, i))
			}()
			if err != nil && !st.Swallow {
				return err
			}
		}
	}
	switch b.Outcome {
	case "error":
		r.nextID++
		return &blockErr{r.nextID}
	case "adderror":
		r.nextID++
		return tx.AddError(&blockErr{r.nextID})
	case "goexit":
		// from here on the lock-step model is off: no block returns any more, every
		// deferred clean-up runs, and the oracle is "nothing durable, nothing left open"
		r.goexited, r.cancelMode = true, true
		runtime.Goexit()
	case "panic":
		r.nextID++
		panic(&panicVal{r.nextID})
	case "panic_op":
		r.nextID++
		fam.KVPanic = &panicVal{r.nextID}
		defer func() { fam.KVPanic = nil }()
		tx.Create(&fam.KV{K: fmt.Sprintf("panic-%d", r.nextID), V: "panic!"})
		// not reached: KV's BeforeCreate panics
		return fmt.Errorf("the panicking insert returned")
	}
	return nil
}

// eventsSince returns the driver events recorded after the first n.
func (r *run) eventsSince(n int) []simdrv.Event {
	evs := r.e.Drv.Events()
	if n > len(evs) {
		return nil
	}
	return evs[n:]
}

// block runs one Transaction block on db in lock-step with the model.
func (r *run) block(db *gorm.DB, b *Block, depth int, path string) (err error) {
	where := fmt.Sprintf("depth%d", depth)
	nested := depth > 1
	r.push()
	snap := r.snapshot()
	nEv := len(r.e.Drv.Events())
	bodyRan := false
	var bodyErr error
	finish := func(panicked bool) {
		fired := r.firedSince(snap)
		evs := r.eventsSince(nEv)
		spFault, rbToFault := false, false
		for _, f := range fired {
			if f.Kind == "exec" && strings.HasPrefix(f.SQL, "SAVEPOINT ") {
				spFault = true
			}
			if f.Kind == "exec" && strings.HasPrefix(f.SQL, "ROLLBACK TO ") {
				rbToFault = true
			}
		}
		failed := panicked || bodyErr != nil || !bodyRan
		if failed {
			r.failed++
		}
		if !nested {
			// outermost: durable iff the body returned nil and the driver saw COMMIT succeed
			commitOK, commitAckLost, commitSeen := false, false, false
			for _, ev := range evs {
				if ev.Kind == "commit" {
					commitSeen = true
					commitOK = ev.Err == ""
					commitAckLost = ev.Fault == "ack_lost"
				}
			}
			switch {
			case failed && commitOK:
				r.fail("committed_on_failure", where, fmt.Sprintf("the outermost block failed (panicked=%v, err=%v, body ran=%v) but a COMMIT reached the driver and succeeded", panicked, bodyErr, bodyRan))
				r.pop(true, false)
			case failed:
				r.pop(false, false)
			case commitAckLost:
				r.pop(true, true)
			case commitOK:
				r.pop(true, false)
			default:
				r.pop(false, false)
			}
			if !panicked && bodyRan && bodyErr == nil && r.c.RefuseCommit && r.c.PoolShim && !commitSeen {
				// the pool wrapper refused the Commit: nothing durable (the model dropped the
				// block above), and the refusal is the caller's error
				if err == nil {
					r.fail("swallowed_commit_error", where+"|refused", "the pool's Commit failed but Transaction returned nil")
				}
			} else if !panicked && bodyRan && bodyErr == nil {
				if !commitSeen {
					r.fail("no_commit", where, "the outermost block returned nil but no COMMIT reached the driver")
				} else if !commitOK && err == nil {
					r.fail("swallowed_commit_error", where, "COMMIT failed at the driver but Transaction returned nil")
				} else if commitOK && err != nil && !r.relaxed {
					r.fail("spurious_error", where, fmt.Sprintf("COMMIT succeeded but Transaction returned %q", err))
				}
			}
		} else {
			switch {
			case !failed:
				r.pop(true, false)
			case r.c.DisableNested:
				r.pop(true, false) // a failing nested block undoes nothing by itself
			case rbToFault:
				r.pop(false, true) // the environment refused (or lost the acknowledgement of) the undo
			default:
				r.pop(false, false)
			}
			if !panicked && bodyRan && bodyErr == nil && err != nil {
				r.fail("spurious_error", where, fmt.Sprintf("a nested block returned nil but Transaction returned %q", err))
			}
		}
		if spFault || rbToFault {
			r.relaxed = true
		}
		if panicked {
			return
		}
		if !bodyRan {
			if err == nil {
				r.fail("body_skipped", where, "Transaction returned nil without running the block")
			} else if len(fired) == 0 && !r.relaxed {
				r.fail("tx_unusable", where+"|begin", fmt.Sprintf("the block could not start: %q, although no fault was injected (%s)", err, r.cfgKey()))
			}
			return
		}
		if bodyErr != nil && err != bodyErr {
			r.fail("error_changed", where, fmt.Sprintf("the block returned %q, Transaction returned %v", bodyErr, err))
		}
	}
	defer func() {
		if p := recover(); p != nil {
			finish(true)
			panic(p)
		}
	}()
	err = db.Transaction(func(tx *gorm.DB) error {
		bodyRan = true
		bodyErr = r.body(tx, b, depth, path)
		return bodyErr
	})
	finish(false)
	return err
}

// manual runs a flat Begin…Commit/Rollback script.
func (r *run) manual(db *gorm.DB) {
	where := "manual"
	snap := r.snapshot()
	tx := db.Begin()
	if tx.Error != nil {
		if len(r.firedSince(snap)) == 0 {
			r.fail("tx_unusable", "manual|begin", fmt.Sprintf("Begin failed with %q although no fault was injected", tx.Error))
		}
		return
	}
	r.push()
	var sps []spEntry
	abort := func() {
		tx.Rollback()
		r.pop(false, false)
	}
	for _, st := range r.c.Manual {
		switch st.Kind {
		case "write":
			if r.write(tx, st, where) != nil {
				abort()
				return
			}
		case "read":
			if r.readVia(tx, st.Via, where) != nil {
				abort()
				return
			}
		case "savepoint":
			s0 := r.snapshot()
			if err := tx.SavePoint(st.Name).Error; err != nil {
				if len(r.firedSince(s0)) == 0 {
					r.fail("tx_unusable", "manual|savepoint", fmt.Sprintf("SavePoint failed with %q although no fault was injected", err))
				}
				abort()
				return
			}
			if len(r.worlds) != 1 {
				abort() // cannot happen before the end of a manual script
				return
			}
			sps = append(sps, spEntry{st.Name, cp(r.worlds[0].top())})
		case "rollback_to":
			idx := -1
			for i := len(sps) - 1; i >= 0; i-- {
				if sps[i].name == st.Name {
					idx = i
					break
				}
			}
			s0 := r.snapshot()
			err := tx.RollbackTo(st.Name).Error
			if err != nil {
				if idx >= 0 && len(r.firedSince(s0)) == 0 {
					r.fail("tx_unusable", "manual|rollback_to", fmt.Sprintf("RollbackTo(%s) failed with %q although the save point exists and no fault was injected", st.Name, err))
				}
				abort()
				return
			}
			if idx < 0 {
				r.fail("unexpected_success", "manual|rollback_to", fmt.Sprintf("RollbackTo(%s) succeeded although no such save point exists", st.Name))
				abort()
				return
			}
			w := r.worlds[0]
			w[len(w)-1] = cp(sps[idx].snap)
			sps = sps[:idx+1]
		}
	}
	if r.c.ManualEnd == "rollback" {
		abort()
		return
	}
	if r.c.ManualEnd == "rollback_commit" {
		// Commit after Rollback: nothing was made durable, so it must not report success
		abort()
		if err := tx.Commit().Error; err == nil {
			r.fail("swallowed_commit_error", where+"|commit_after_rollback", "Commit() after Rollback() returned no error although nothing was committed")
		}
		return
	}
	nEv := len(r.e.Drv.Events())
	err := tx.Commit().Error
	r.commitCalled, r.commitErr = true, err
	if err != nil && r.c.RefuseCommit && r.c.PoolShim {
		tx.Rollback() // what a caller does when Commit fails (usually a deferred Rollback)
	}
	ok, ackLost := false, false
	for _, ev := range r.eventsSince(nEv) {
		if ev.Kind == "commit" {
			ok, ackLost = ev.Err == "", ev.Fault == "ack_lost"
		}
	}
	switch {
	case ackLost:
		r.pop(true, true)
	case ok:
		r.pop(true, false)
	default:
		r.pop(false, false)
	}
	if !ok && err == nil {
		r.fail("swallowed_commit_error", where, "COMMIT failed at the driver but Commit() returned no error")
	}
	if ok && err != nil {
		r.fail("spurious_error", where, fmt.Sprintf("COMMIT succeeded but Commit() returned %q", err))
	}
}

// ---------------------------------------------------------------- one execution

type result struct {
	sr       *ops.SingleRun
	viol     *core.Violation
	failed   int
	panicked bool
	points   []string // kinds of the pool calls made (pool shim runs)
}

func (p Prop) exec(c *Case, faults []*ops.Fault) (*result, error) {
	res := &result{}
	var r *run
	var cf *ops.CancelFault
	var drvFaults []*ops.Fault
	for _, f := range faults {
		if f.Cancel != nil {
			cf = f.Cancel
		} else {
			drvFaults = append(drvFaults, f)
		}
	}
	o := env.Options{PrepareStmt: c.Prepare, DisableNestedTransaction: c.DisableNested, SkipDefaultTransaction: c.SkipDefault}
	var pool *simpool.Pool
	if c.PoolShim || cf != nil || c.ctxProbe {
		o.WrapPool = func(db *sql.DB, drv *simdrv.Sim) gorm.ConnPool {
			pool = simpool.New(db, drv)
			pool.ValueTx = c.ValueTx
			pool.RefuseCommit = c.RefuseCommit
			return pool
		}
	}
	ctx, cancel := context.WithCancel(context.Background())
	defer cancel()
	sr, err := ops.RunMulti(o, drvFaults, nil, func(e *env.Env) ops.Result {
		r = &run{c: c, e: e, worlds: []world{{map[string]string{"base": "0"}}}, cancelMode: cf != nil || c.HandleErr}
		for _, f := range drvFaults {
			if f.Drv != nil {
				r.faults = append(r.faults, f.Drv)
			}
		}
		h := e.DB
		if c.HandleErr {
			// a reusable handle on which an earlier step failed
			h = h.Session(&gorm.Session{})
			h.AddError(errHandle)
		}
		first := 0
		if cf != nil || c.ctxProbe {
			h = h.WithContext(ctx)
			first = pool.Calls()
			if cf != nil {
				pool.Cancel = cancel
				pool.CancelAt = first + cf.K
			}
		}
		// the program runs in a goroutine of its own, which a block may end (Goexit)
		done := make(chan struct{})
		prevCur := e.Drv.Cur
		go func() {
			defer close(done)
			// this goroutine is the task: its driver calls are the program's, not asynchronous ones
			me := simrt.Goid()
			e.Drv.Cur = func() int {
				if simrt.Goid() == me {
					return 0
				}
				return prevCur()
			}
			defer func() {
				if pv := recover(); pv != nil {
					res.panicked = true
					if _, ok := pv.(*panicVal); !ok {
						r.fail("panic_changed", "top", fmt.Sprintf("a panic reached the caller with value %v (%T) instead of the block's own panic value", pv, pv))
					}
				}
			}()
			if c.Tree != nil {
				r.topErr = r.block(h, c.Tree, 1, "0")
				r.topReturned = true
			} else {
				r.manual(h)
			}
		}()
		<-done
		e.Drv.Cur = prevCur
		if pool != nil {
			pool.CancelAt = -1
			res.points = pool.Points
			if first <= len(res.points) {
				res.points = res.points[first:]
			}
			if cf != nil {
				cf.Fired = pool.CancelSeq != 0
			}
		}
		return ops.Result{}
	})
	if err != nil {
		return nil, err
	}
	if v := sr.HungViolation(); v != nil {
		res.sr, res.viol = sr, v
		return res, nil
	}
	res.sr, res.viol, res.failed = sr, r.viol, r.failed
	if res.viol != nil {
		return res, nil
	}
	if l := sr.Leak(); l != "" {
		res.viol = &core.Violation{Class: "leak", Key: "after_transaction", Detail: "after the outermost call returned: " + l}
		return res, nil
	}
	if sr.DumpErr != nil {
		return nil, sr.DumpErr
	}
	got := kvDump(sr.D1)
	if r.goexited {
		if want := render(map[string]string{"base": "0"}); got != want {
			res.viol = &core.Violation{Class: "durable_state", Key: "goexit", Detail: fmt.Sprintf("a block ended its goroutine (runtime.Goexit), yet the table contains {%s} (%s)", got, r.cfgKey())}
		}
		return res, nil
	}
	if c.HandleErr {
		// nothing may be written or left open from a handle that already failed,
		// and the caller must get an error
		if want := render(map[string]string{"base": "0"}); got != want {
			res.viol = &core.Violation{Class: "durable_state", Key: "handle_error", Detail: fmt.Sprintf("the handle already carried an error, yet the table contains {%s} (%s)", got, r.cfgKey())}
		} else if c.Tree != nil && r.topReturned && r.topErr == nil {
			res.viol = &core.Violation{Class: "swallowed_error", Key: "handle_error|transaction", Detail: "the handle already carried an error but Transaction returned nil (" + r.cfgKey() + ")"}
		}
		return res, nil
	}
	if cf != nil {
		if !cf.Fired {
			return res, nil
		}
		// the context was cancelled inside the outermost transaction (or before its
		// BEGIN): database/sql rolls it back, so nothing is durable, and the caller
		// must be told
		if want := render(map[string]string{"base": "0"}); got != want {
			res.viol = &core.Violation{Class: "durable_state", Key: "cancelled", Detail: fmt.Sprintf("the context was cancelled before pool call #%d (%s) of the outermost transaction, yet the table contains {%s} (%s)", cf.K, cf.At, got, r.cfgKey())}
			return res, nil
		}
		switch {
		case c.Tree != nil && r.topReturned && r.topErr == nil:
			res.viol = &core.Violation{Class: "swallowed_commit_error", Key: "cancelled|transaction", Detail: fmt.Sprintf("the context was cancelled before pool call #%d (%s); nothing is durable but Transaction returned nil (%s)", cf.K, cf.At, r.cfgKey())}
		case c.Tree == nil && r.commitCalled && r.commitErr == nil:
			res.viol = &core.Violation{Class: "swallowed_commit_error", Key: "cancelled|manual", Detail: fmt.Sprintf("the context was cancelled before pool call #%d (%s); nothing is durable but Commit() returned no error (%s)", cf.K, cf.At, r.cfgKey())}
		}
		return res, nil
	}
	var wants []string
	match := false
	for _, w := range r.worlds {
		s := render(w[0])
		wants = append(wants, s)
		if s == got {
			match = true
		}
	}
	if !match {
		res.viol = &core.Violation{Class: "durable_state", Key: fmt.Sprintf("nonested=%v", c.DisableNested), Detail: fmt.Sprintf("table contents after the outermost call {%s}; the model allows %q (%s)", got, wants, r.cfgKey())}
	}
	return res, nil
}

// kvDump extracts the kvs table from a full dump in render() form.
func kvDump(d string) string {
	m := map[string]string{}
	in := false
	for _, l := range strings.Split(d, "\n") {
		if strings.HasPrefix(l, "## ") {
			in = strings.HasPrefix(l, "## kvs ")
			continue
		}
		if in && l != "" {
			p := strings.SplitN(l, "|", 2)
			m[p[0]] = p[1]
		}
	}
	return render(m)
}

func faultKey(fs []*ops.Fault) string {
	var p []string
	for _, f := range fs {
		p = append(p, f.Short())
	}
	return strings.Join(p, "+")
}

func (p Prop) Run(ci interface{}, focus *core.Violation) *core.Outcome {
	c := ci.(*Case)
	out := &core.Outcome{}
	seen := map[string]bool{}
	baseHash := ""
	note := func(res *result, fired bool, fs []*ops.Fault) string {
		h := core.Hash(res.sr.TraceHashParts()...)
		if len(fs) > 0 {
			var names []string
			for _, f := range fs {
				names = append(names, f.HashName())
			}
			h = ops.FaultedHash(baseHash, strings.Join(names, "+"), res.sr, kvDump(res.sr.D1), fmt.Sprint(res.panicked))
		}
		if (fired || res.failed > 0 || res.panicked) && !seen[h] {
			seen[h] = true
			out.Hashes = append(out.Hashes, h)
		}
		return h
	}
	base, err := p.exec(c, nil)
	if err != nil {
		out.Trouble = "fault-free run: " + err.Error()
		return out
	}
	out.Runs++
	out.Count("fault_free_runs", 1)
	out.Count("blocks_failed_or_panicked", int64(base.failed))
	out.Sample = map[string]interface{}{"case": c, "fault_free_driver_calls": len(base.sr.Events)}
	h := note(base, false, nil)
	baseHash = h
	out.TraceHash = h
	if base.viol != nil {
		base.viol.Key = "no_fault|" + base.viol.Key
		if out.Report(base.viol, focus, h) {
			c.Only = []ops.Fault{}
			return out
		}
	}
	var plans [][]*ops.Fault
	if c.Only != nil {
		if len(c.Only) > 0 {
			var fs []*ops.Fault
			for i := range c.Only {
				fs = append(fs, &c.Only[i])
			}
			plans = append(plans, fs)
		}
	} else {
		id := 0
		sites := ops.DriverSites(base.sr.Events, &id)
		ops.SortFaults(sites)
		out.Count("sites_total", int64(len(sites)))
		// cancellation sites: one per pool call of the same case run from a context-bound handle
		pc := *c
		pc.ctxProbe = true
		probe, err := p.exec(&pc, nil)
		if err != nil {
			out.Trouble = "context-bound fault-free run: " + err.Error()
			return out
		}
		out.Runs++
		if probe.viol != nil {
			probe.viol.Key = "no_fault|context_bound|" + probe.viol.Key
			if out.Report(probe.viol, focus, h) {
				c.Only = []ops.Fault{}
				return out
			}
		}
		for k, pt := range probe.points {
			if k >= 60 {
				break
			}
			id++
			sites = append(sites, ops.Fault{Cancel: &ops.CancelFault{ID: id, K: k, At: pt}})
		}
		ops.SortFaults(sites)
		ops.ApplyClass(sites, c.ErrClass)
		for i := range sites {
			if sites[i].Drv != nil && sites[i].Drv.Kind == "next" && sites[i].Drv.Row > 1 {
				continue
			}
			plans = append(plans, []*ops.Fault{&sites[i]})
		}
		if c.MaxSites > 0 && len(plans) > c.MaxSites {
			r := core.NewRand(c.Pick)
			var picked [][]*ops.Fault
			for _, i := range r.Perm(len(plans))[:c.MaxSites] {
				picked = append(picked, plans[i])
			}
			plans = picked
		}
	}
	runPlan := func(fs []*ops.Fault) (*result, bool) {
		res, err := p.exec(c, fs)
		if err != nil {
			out.Trouble = "faulted run: " + err.Error()
			return nil, true
		}
		out.Runs++
		fired := false
		for _, f := range fs {
			if f.Cancel != nil {
				if f.Cancel.Fired {
					fired = true
					out.Count("fired:cancel_"+f.Cancel.At, 1)
				} else {
					out.Count("not_fired:cancel_"+f.Cancel.At, 1)
				}
				continue
			}
			k := f.Drv.Kind + "_" + f.Drv.Type
			if strings.HasPrefix(f.Drv.SQL, "SAVEPOINT ") {
				k = "savepoint_" + f.Drv.Type
			} else if strings.HasPrefix(f.Drv.SQL, "ROLLBACK TO ") {
				k = "rollback_to_" + f.Drv.Type
			}
			if f.Drv.Fired > 0 {
				fired = true
				out.Count("fired:"+k, 1)
			} else {
				out.Count("not_fired:"+k, 1)
			}
		}
		h := note(res, fired, fs)
		if res.viol != nil {
			res.viol.Key = faultKey(fs) + "|" + res.viol.Key
			res.viol.Detail = fmt.Sprintf("with fault(s) %v: %s", fs, res.viol.Detail)
			if out.Report(res.viol, focus, h) {
				c.Only = nil
				for _, f := range fs {
					c.Only = append(c.Only, *f)
				}
				return res, true
			}
		}
		return res, false
	}
	for _, fs := range plans {
		res, stop := runPlan(fs)
		if stop {
			return out
		}
		if !c.Pairs || c.Only != nil || len(fs) != 1 || fs[0].Drv == nil || fs[0].Drv.Fired == 0 {
			continue
		}
		// pairs: fault the clean-up statements (ROLLBACK TO / ROLLBACK) that followed the first fault
		after := false
		occ := map[string]int{}
		id := 100000
		for _, ev := range res.sr.Events {
			key := ev.Kind + "\x00" + ev.SQL
			o := occ[key]
			occ[key]++
			if ev.Fault != "" && ev.Fault != "rows_err(armed)" {
				after = true
				continue
			}
			if !after {
				continue
			}
			var second *simdrv.Fault
			if ev.Kind == "exec" && strings.HasPrefix(ev.SQL, "ROLLBACK TO ") {
				second = &simdrv.Fault{Kind: "exec", SQL: ev.SQL, Occ: o, Type: "err"}
			} else if ev.Kind == "rollback" {
				second = &simdrv.Fault{Kind: "rollback", Occ: o, Type: "err"}
			}
			if second == nil {
				continue
			}
			id++
			second.ID = id
			first := *fs[0].Drv
			out.Count("pairs", 1)
			if _, stop := runPlan([]*ops.Fault{{Drv: &first}, {Drv: second}}); stop {
				return out
			}
		}
	}
	return out
}
