// Package c18: every statement of an operation carries the caller's context,
// and a cancelled context lets no statement run.
//
// One task.  The operation is started from a handle bound to a context that
// carries a unique tag; the tag is checked on every pool call and every
// context-carrying driver call.  The operation is then re-run with the context
// cancelled beforehand, and once per pool call index k with the context
// cancelled just before the k-th call.
package c18

import (
	"context"
	"database/sql"
	"encoding/json"
	"errors"
	"fmt"
	"strings"
	"time"

	"gorm.io/gorm"

	"verif/sim/core"
	"verif/sim/env"
	"verif/sim/fam"
	"verif/sim/ops"
	"verif/sim/simdrv"
	"verif/sim/simpool"
)

type Case struct {
	W          *ops.WOp `json:"write,omitempty"`
	R          *ops.ROp `json:"read,omitempty"`
	A          *ops.AOp `json:"assoc,omitempty"`
	Prepare    bool     `json:"prepare_stmt"`
	PoolShim   bool     `json:"pool_shim"`
	Nest       int      `json:"nest"`                     // Transaction blocks around the operation (0..3)
	ViaSession bool     `json:"via_session"`              // Session{Context} instead of WithContext
	SessOpts   int      `json:"session_opts,omitempty"`   // with ViaSession: 1 = also PrepareStmt, 2 = also SkipHooks, 3 = both and SkipDefaultTransaction
	ViaConn    bool     `json:"via_connection,omitempty"` // the operation runs inside h.Connection(func(tx) …), on one dedicated connection
	Sibling    int      `json:"sibling,omitempty"`        // 1..5: other handles bound to another context are derived from the operation's handle first and abandoned
	OuterTx    bool     `json:"outer_tx,omitempty"`       // the operation's handle is tx.WithContext(ctx) of a transaction begun under another context
	Deadline   bool     `json:"deadline,omitempty"`       // the caller's context also has a deadline (an hour away: it never fires)
	Warm       bool     `json:"warm"`                     // run the operation once before (statements already prepared / schemas parsed)
	HookStmts  bool     `json:"hook_stmts"`               // model hooks issue a statement of their own through the *gorm.DB they are given
	MaxSites   int      `json:"max_sites"`
	Pick       int64    `json:"pick_seed"`
	Only       []int    `json:"only,omitempty"` // cancellation points to run: -1 = cancelled before the call, k = before pool call k
}

type Prop struct{}

func (Prop) ID() string    { return "C18" }
func (Prop) Level() string { return "exploration" }
func (Prop) Rule() string {
	return "a case is one write, read (preload/joins/batches/rows/count/pluck) or association-mode operation over the model family, started from WithContext/Session{Context} with a uniquely tagged context, at transaction nesting 0..3, PrepareStmt on/off, ConnPool shim on/off, cold or warm; runs: tagged fault-free run (tag invariant on every pool and driver call), context cancelled beforehand, and context cancelled just before pool call k for every k (quick: sampled k). An evaluation is one simulated run; non-trivial = at least one context-carrying driver call or a cancellation that fired; distinct = distinct hash of (driver event sequence, cancellation point, outcome)"
}
func (Prop) Assumptions() []string {
	return []string{
		"gorm may derive child contexts: the invariant is on a value carried by the context, not on context identity",
		"Commit, Rollback and Close carry no context and are exempt",
		"cancellation is injected between pool calls, never in the middle of a driver call",
	}
}

type tagKey struct{}

func ctxTag(ctx context.Context) string {
	if ctx == nil {
		return "<nil>"
	}
	v, _ := ctx.Value(tagKey{}).(string)
	return v
}

func (Prop) Gen(r *core.Rand, tier string) interface{} {
	c := &Case{Prepare: r.Chance(40), PoolShim: r.Chance(70), ViaSession: r.Chance(30), Warm: r.Chance(30), HookStmts: r.Chance(30), Pick: r.Int63()}
	if r.Chance(50) {
		c.Nest = r.Range(1, 3)
	}
	if r.Chance(35) {
		c.Sibling = r.Range(1, 5)
	}
	c.ViaConn = r.Chance(12)
	c.Deadline = r.Chance(35)
	c.OuterTx = !c.ViaConn && r.Chance(20)
	if c.ViaSession && r.Chance(50) {
		c.SessOpts = r.Range(1, 3)
	}
	switch x := r.Intn(10); {
	case x < 5:
		w := ops.GenWOp(r, ops.WriteKinds)
		c.W = &w
	case x < 8:
		ro := ops.GenROp(r, ops.ReadKinds)
		c.R = &ro
	default:
		a := ops.GenAOp(r)
		c.A = &a
	}
	if tier != "thorough" {
		c.MaxSites = 12
	}
	return c
}

func (Prop) Decode(raw json.RawMessage) (interface{}, error) {
	c := &Case{}
	return c, json.Unmarshal(raw, c)
}

func (Prop) Shrink(ci interface{}) []interface{} {
	c := ci.(*Case)
	var out []interface{}
	if c.W != nil {
		for _, w := range ops.ShrinkWOp(*c.W) {
			w := w
			v := *c
			v.W, v.Only, v.MaxSites = &w, nil, 0
			out = append(out, &v)
		}
	}
	if c.R != nil && len(c.R.Preloads) > 1 {
		for i := range c.R.Preloads {
			ro := *c.R
			ro.Preloads = append(append([]string{}, c.R.Preloads[:i]...), c.R.Preloads[i+1:]...)
			v := *c
			v.R, v.Only, v.MaxSites = &ro, nil, 0
			out = append(out, &v)
		}
	}
	if c.Nest > 0 {
		v := *c
		v.Nest--
		v.Only, v.MaxSites = nil, 0
		out = append(out, &v)
	}
	for _, f := range []func(v *Case) bool{
		func(v *Case) bool { x := v.Prepare; v.Prepare = false; return x },
		func(v *Case) bool { x := v.ViaSession; v.ViaSession = false; return x },
		func(v *Case) bool { x := v.Sibling != 0; v.Sibling = 0; return x },
		func(v *Case) bool { x := v.ViaConn; v.ViaConn = false; return x },
		func(v *Case) bool { x := v.SessOpts != 0; v.SessOpts = 0; return x },
		func(v *Case) bool { x := v.Warm; v.Warm = false; return x },
		func(v *Case) bool { x := v.HookStmts; v.HookStmts = false; return x },
	} {
		v := *c
		if f(&v) {
			v.Only, v.MaxSites = nil, 0
			out = append(out, &v)
		}
	}
	return out
}

func (c *Case) kind() string {
	switch {
	case c.W != nil:
		return c.W.Kind
	case c.R != nil:
		return c.R.Kind
	}
	return "assoc_" + c.A.Kind + "_" + c.A.Assoc
}

func (c *Case) op(db *gorm.DB) (res ops.Result) {
	defer func() {
		if pv := recover(); pv != nil {
			res = ops.Result{Err: fmt.Errorf("panic: %v", pv)}
		}
	}()
	switch {
	case c.W != nil:
		return c.W.Exec(db)
	case c.R != nil:
		return c.R.Exec(db)
	}
	return c.A.Exec(db)
}

type execInfo struct {
	sr        *ops.SingleRun
	pool      []simpool.Event
	cancelSeq int64
	startSeq  int64
	tag       string
}

// exec runs the operation; cancelAt: -2 = never cancel, -1 = cancelled before the call, k>=0 = before pool call k.
func (p Prop) exec(c *Case, cancelAt int) (*execInfo, error) {
	info := &execInfo{tag: "op-ctx"}
	var pool *simpool.Pool
	o := env.Options{PrepareStmt: c.Prepare}
	if c.PoolShim {
		o.WrapPool = func(db *sql.DB, drv *simdrv.Sim) gorm.ConnPool {
			pool = simpool.New(db, drv)
			return pool
		}
	}
	var action ops.HookAction
	if c.HookStmts {
		action = func(hc fam.HookCall, ev *ops.HookEvent) error {
			if hc.Hook == "BeforeSave" || hc.Hook == "AfterFind" || hc.Hook == "BeforeDelete" || hc.Hook == "AfterUpdate" {
				var n int64
				// the hook's own statement runs on the operation's behalf; like any sensible hook it reports its failure
				if err := hc.Tx.Model(&fam.Note{}).Where("rank >= ?", 0).Count(&n).Error; err != nil {
					return err
				}
			}
			return nil
		}
	}
	sr, err := ops.RunSingle(o, nil, action, func(e *env.Env) ops.Result {
		e.Drv.CtxTag = ctxTag
		if c.Warm {
			warm := context.WithValue(context.Background(), tagKey{}, "warm-up")
			c.op(e.DB.WithContext(warm))
		}
		parent := context.WithValue(context.Background(), tagKey{}, info.tag)
		if c.Deadline {
			// code that re-arms the caller's deadline on a context of its own loses the cancellation
			var stop context.CancelFunc
			parent, stop = context.WithDeadline(parent, time.Now().Add(time.Hour))
			defer stop()
		}
		ctx, cancel := context.WithCancel(parent)
		defer cancel()
		root := e.DB
		if c.OuterTx {
			// the operation runs inside a transaction somebody else began under another
			// context, on a handle re-bound to its own: tx.WithContext(ctx)
			outer := context.WithValue(context.Background(), tagKey{}, "outer-tx-ctx")
			otx := e.DB.WithContext(outer).Begin()
			if otx.Error != nil {
				return ops.Result{Err: otx.Error}
			}
			defer otx.Rollback()
			root = otx
		}
		info.startSeq = e.Drv.Tick()
		if pool != nil {
			pool.Cancel = cancel
			pool.CancelAt = -1
			if cancelAt >= 0 {
				pool.CancelAt = cancelAt + poolCalls(pool)
			}
		}
		if cancelAt == -1 {
			cancel()
			info.cancelSeq = info.startSeq
		}
		var h *gorm.DB
		if c.ViaSession {
			// one Session call that combines the context with other options
			sess := &gorm.Session{Context: ctx}
			switch c.SessOpts {
			case 1:
				sess.PrepareStmt = true
			case 2:
				sess.SkipHooks = true
			case 3:
				sess.PrepareStmt, sess.SkipHooks, sess.SkipDefaultTransaction = true, true, true
			}
			h = root.Session(sess)
			if p, ok := h.Statement.ConnPool.(*gorm.PreparedStmtDB); ok && sess.PrepareStmt && !c.Prepare {
				defer p.Close()
			}
		} else {
			h = root.WithContext(ctx)
		}
		if c.Sibling != 0 {
			// other handles derived from h and bound to another (cancelled) context:
			// deriving them must not rebind h
			other, cancelOther := context.WithCancel(context.WithValue(context.Background(), tagKey{}, "sibling-ctx"))
			cancelOther()
			switch c.Sibling {
			case 1:
				_ = h.WithContext(other)
			case 2:
				_ = h.Session(&gorm.Session{Context: other})
			case 3:
				_ = h.Session(&gorm.Session{NewDB: true, Context: other})
			case 4:
				_ = h.Session(&gorm.Session{NewDB: true, Context: other, SkipHooks: true})
			default:
				_ = h.Session(&gorm.Session{NewDB: true, Context: other}).Model(&fam.Note{}).Where("rank >= ?", 0) // a chain built on the sibling and abandoned
			}
		}
		var res ops.Result
		var nest func(db *gorm.DB, n int) error
		nest = func(db *gorm.DB, n int) error {
			if n == 0 {
				res = c.op(db)
				return res.Err
			}
			return db.Transaction(func(tx *gorm.DB) error { return nest(tx, n-1) })
		}
		run := func(db *gorm.DB) error { return nest(db, c.Nest) }
		var err error
		if c.ViaConn {
			err = h.Connection(run)
		} else {
			err = run(h)
		}
		if err != nil && res.Err == nil {
			res.Err = err
		}
		if pool != nil && pool.CancelSeq != 0 {
			info.cancelSeq = pool.CancelSeq
		}
		return res
	})
	if err != nil {
		return nil, err
	}
	info.sr = sr
	if pool != nil {
		info.pool = pool.Events()
	}
	return info, nil
}

func poolCalls(p *simpool.Pool) int { return p.Calls() }

func carries(kind string) bool {
	return kind == "begin" || kind == "prepare" || kind == "exec" || kind == "query" || kind == "query_row"
}

func (p Prop) Run(ci interface{}, focus *core.Violation) *core.Outcome {
	c := ci.(*Case)
	out := &core.Outcome{}
	seen := map[string]bool{}
	baseHash := ""
	note := func(x *execInfo, extra string, nontrivial bool) string {
		h := core.Hash(append(x.sr.TraceHashParts(), extra)...)
		if baseHash != "" {
			// cancelled runs: which statements ran before the cancellation point may
			// differ between executions (gorm iterates maps); identify the run by
			// the tagged trace, the point and the outcome
			h = ops.FaultedHash(baseHash, extra, x.sr)
		}
		if nontrivial && !seen[h] {
			seen[h] = true
			out.Hashes = append(out.Hashes, h)
		}
		return h
	}
	k := c.kind()
	base, err := p.exec(c, -2)
	if err != nil {
		out.Trouble = "tagged run: " + err.Error()
		return out
	}
	out.Runs++
	// ---- the tag invariant at both seams
	nCarry := 0
	for _, ev := range base.sr.Events {
		if ev.Task >= 0 && ev.Seq > base.startSeq && carries(ev.Kind) {
			nCarry++
		}
	}
	h0 := note(base, "tagged", nCarry > 0)
	baseHash = h0
	out.TraceHash = h0
	out.Count("driver_calls_checked", int64(nCarry))
	out.Count("pool_calls_checked", int64(len(base.pool)))
	out.Sample = map[string]interface{}{"case": c, "context_carrying_driver_calls": nCarry}
	report := func(v *core.Violation, h string, only int) bool {
		if out.Report(v, focus, h) {
			c.Only = []int{only}
			return true
		}
		return false
	}
	if v := base.sr.HungViolation(); v != nil {
		v.Key += "|tagged"
		report(v, h0, -2)
		return out
	}
	if l := base.sr.Leak(); l != "" {
		if report(&core.Violation{Class: "leak", Key: k + "|tagged", Detail: l}, h0, -2) {
			return out
		}
	}
	onlyTagged := len(c.Only) == 1 && c.Only[0] == -2
	for _, ev := range base.sr.Events {
		if ev.Task >= 0 && ev.Seq > base.startSeq && carries(ev.Kind) && ev.Ctx != base.tag {
			v := &core.Violation{Class: "context_lost", Key: fmt.Sprintf("driver|%s %s|nest=%v", ev.Kind, ops.SQLSig(ev.SQL), c.Nest > 0), Detail: fmt.Sprintf("driver call %s %q received a context tagged %q instead of the operation's %q (%s, prepare=%v, shim=%v, nest=%d)", ev.Kind, ev.SQL, ev.Ctx, base.tag, k, c.Prepare, c.PoolShim, c.Nest)}
			if report(v, h0, -2) {
				return out
			}
			break
		}
	}
	for _, ev := range base.pool {
		if ev.Seq > base.startSeq && carries(ev.Kind) && ev.Ctx != base.tag {
			v := &core.Violation{Class: "context_lost", Key: fmt.Sprintf("pool|%s %s|nest=%v", ev.Kind, ops.SQLSig(ev.SQL), c.Nest > 0), Detail: fmt.Sprintf("pool call %s %q was given a context tagged %q instead of the operation's %q (%s)", ev.Kind, ev.SQL, ev.Ctx, base.tag, k)}
			if report(v, h0, -2) {
				return out
			}
			break
		}
	}
	if onlyTagged {
		return out
	}
	// ---- cancellation points
	var points []int
	if c.Only != nil {
		points = c.Only
	} else {
		points = append(points, -1)
		if c.PoolShim {
			n := 0
			for _, ev := range base.pool {
				if ev.Seq > base.startSeq {
					n++
				}
			}
			all := make([]int, n)
			for i := range all {
				all[i] = i
			}
			if c.MaxSites > 0 && n > c.MaxSites {
				r := core.NewRand(c.Pick)
				perm := r.Perm(n)[:c.MaxSites]
				all = perm
			}
			points = append(points, all...)
		}
	}
	for _, at := range points {
		if at == -2 {
			continue
		}
		x, err := p.exec(c, at)
		if err != nil {
			out.Trouble = "cancelled run: " + err.Error()
			return out
		}
		out.Runs++
		if v := x.sr.HungViolation(); v != nil {
			v.Key += "|cancelled"
			report(v, h0, at)
			return out
		}
		fired := x.cancelSeq != 0
		h := note(x, fmt.Sprintf("cancel@%d", at), fired)
		if at == -1 {
			out.Count("fired:cancel_before_call", 1)
		} else if fired {
			out.Count("fired:ctx_cancel_at_k", 1)
		} else {
			out.Count("not_fired:ctx_cancel_at_k", 1)
			continue
		}
		where := "before_call"
		if at >= 0 {
			where = "mid_operation"
		}
		stop := false
		for _, ev := range x.sr.Events {
			if ev.Task >= 0 && ev.Seq > x.cancelSeq && ev.Seq > x.startSeq && carries(ev.Kind) {
				v := &core.Violation{Class: "ran_after_cancel", Key: fmt.Sprintf("%s|%s %s", where, ev.Kind, ops.SQLSig(ev.SQL)), Detail: fmt.Sprintf("context cancelled (%s, point %d) but driver call %s %q still ran with context tag %q (%s, prepare=%v, nest=%d)", where, at, ev.Kind, ev.SQL, ev.Ctx, k, c.Prepare, c.Nest)}
				stop = report(v, h, at)
				break
			}
		}
		if stop {
			return out
		}
		if nCarry > 0 && base.sr.Res.Err == nil {
			e := x.sr.Res.Err
			if e == nil {
				if report(&core.Violation{Class: "cancel_ignored", Key: where + "|" + k, Detail: fmt.Sprintf("context cancelled (%s, point %d) but the operation returned no error", where, at)}, h, at) {
					return out
				}
			} else if at == -1 && !errors.Is(e, context.Canceled) && !strings.Contains(e.Error(), "context canceled") {
				if report(&core.Violation{Class: "cancel_error_lost", Key: where + "|" + k, Detail: fmt.Sprintf("context cancelled before the call; the returned error %q is not the context's error", e)}, h, at) {
					return out
				}
			}
		}
		if l := x.sr.Leak(); l != "" {
			if report(&core.Violation{Class: "leak", Key: k + "|" + where, Detail: fmt.Sprintf("after cancellation at point %d: %s", at, l)}, h, at) {
				return out
			}
		}
	}
	return out
}
