// Package c13: hooks run once per record, in the documented order, in the
// operation's transaction; a hook error aborts and rolls back.
//
// One task.  The operation is run fault-free with recording hooks on every
// model, then once per hook invocation with that invocation returning an error.
package c13

import (
	"context"
	"encoding/json"
	"fmt"
	"sort"
	"strings"

	"gorm.io/gorm"

	"verif/sim/core"
	"verif/sim/env"
	"verif/sim/fam"
	"verif/sim/ops"
	"verif/sim/simdrv"
)

type Case struct {
	W          *ops.WOp    `json:"write,omitempty"`
	R          *ops.ROp    `json:"read,omitempty"`
	Prepare    bool        `json:"prepare_stmt"`
	ExplicitTx bool        `json:"explicit_tx"`
	HookSets   bool        `json:"hook_sets"`                 // before-hooks of root users set Age (directly on create, via SetColumn on update)
	HookWrites bool        `json:"hook_writes"`               // BeforeSave/BeforeDelete of root users write a marker row through their tx
	PriorSkip  bool        `json:"prior_skiphooks,omitempty"` // the operation runs on a WithContext handle from which a Session{SkipHooks:true} was derived and abandoned before
	HookCtx    bool        `json:"hook_ctx,omitempty"`        // with hook_writes: the hook writes through tx.WithContext(ctx) instead of tx itself
	ErrClass   string      `json:"err_class,omitempty"`       // the failing hook's error wraps this well-known error (simdrv.ClassError)
	MaxSites   int         `json:"max_sites"`
	Pick       int64       `json:"pick_seed"`
	Only       []ops.Fault `json:"only,omitempty"`
}

type hookCtxKey struct{}

type Prop struct{}

func (Prop) ID() string    { return "C13" }
func (Prop) Level() string { return "fault_enumeration" }
func (Prop) Rule() string {
	return "a case is one create/save/update/delete/query operation over a seeded record graph (struct, value-slice, pointer-slice arguments of length 0..5; associations with their own hooks; SkipHooks / UpdateColumn(s) variants; inside an explicit transaction or not; before-hooks that set a field or write a marker row through their tx); it runs fault-free with recording hooks on every model, then once per hook invocation of that run with the invocation returning an error. An evaluation is one simulated run; non-trivial = at least one hook fired; distinct = distinct hash of (hook sequence, driver event sequence, outcome)"
}
func (Prop) Assumptions() []string {
	return []string{
		"in-memory record identity is the address the hook receives; for argument records it must be the caller's own element",
		"AfterFind accounting uses the number of rows the driver delivered for the model's table (the hook receives gorm's own destination elements)",
		"only per-record order is demanded; no order across records",
	}
}

var writeKinds = []string{
	"create", "create", "create_slice", "create_slice", "create_ptr_slice", "create_ptr_slice", "create_batches",
	"create_memo", "save_memo", "update_memo", "create_lang", "create_langs", "create_toy", "update_toy", "create_account", "update_account", "delete_toy", "delete_account", "delete_lang", "update_company", "delete_company", "update_pet", "update_lang", "save", "save", "save_slice", "update", "updates_struct", "updates_ptr", "updates_ptr", "updates_map", "updates_self", "update_column", "update_columns",
	"delete", "delete_select", "delete_slice", "delete_pet",
}

func (Prop) Gen(r *core.Rand, tier string) interface{} {
	c := &Case{Prepare: r.Chance(25), ExplicitTx: r.Chance(25), HookSets: r.Chance(40), HookWrites: r.Chance(30), Pick: r.Int63()}
	if r.Chance(75) {
		w := ops.GenWOp(r, writeKinds)
		if (w.Kind == "create_slice" || w.Kind == "create_ptr_slice") && !w.RootFriend {
			// lengths 0..5
			g := fam.NewGen(r)
			w.Users = nil
			for i, n := 0, r.Range(0, 5); i < n; i++ {
				w.Users = append(w.Users, g.User(r.Intn(2)))
			}
		}
		w.SkipHooks = r.Chance(12)
		c.W = &w
	} else {
		ro := ops.GenROp(r, []string{"first", "take_struct", "find_all", "find_where", "find_names", "find_omit_id", "find_pets", "preload", "preload", "find_in_batches", "foc_found", "foc_assign", "joins"})
		ro.SkipHooks = r.Chance(12)
		c.R = &ro
	}
	if tier != "thorough" {
		c.MaxSites = 25
	}
	if r.Chance(40) {
		c.ErrClass = r.Pick(append([]string{"notfound", "notfound"}, simdrv.Classes...))
	}
	c.HookCtx = c.HookWrites && r.Chance(40)
	c.PriorSkip = r.Chance(12)
	return c
}

func (Prop) Decode(raw json.RawMessage) (interface{}, error) {
	c := &Case{}
	return c, json.Unmarshal(raw, c)
}

func (Prop) Shrink(ci interface{}) []interface{} {
	c := ci.(*Case)
	var out []interface{}
	if c.W != nil {
		for _, w := range ops.ShrinkWOp(*c.W) {
			w := w
			v := *c
			v.W, v.Only, v.MaxSites = &w, nil, 0
			out = append(out, &v)
		}
	}
	if c.R != nil && len(c.R.Preloads) > 1 {
		for i := range c.R.Preloads {
			ro := *c.R
			ro.Preloads = append(append([]string{}, c.R.Preloads[:i]...), c.R.Preloads[i+1:]...)
			v := *c
			v.R, v.Only, v.MaxSites = &ro, nil, 0
			out = append(out, &v)
		}
	}
	for _, f := range []func(v *Case) bool{
		func(v *Case) bool { x := v.Prepare; v.Prepare = false; return x },
		func(v *Case) bool { x := v.ExplicitTx; v.ExplicitTx = false; return x },
		func(v *Case) bool { x := v.HookSets; v.HookSets = false; return x },
		func(v *Case) bool { x := v.HookWrites; v.HookWrites = false; return x },
		func(v *Case) bool { x := v.ErrClass != ""; v.ErrClass = ""; return x },
		func(v *Case) bool { x := v.HookCtx; v.HookCtx = false; return x },
		func(v *Case) bool { x := v.PriorSkip; v.PriorSkip = false; return x },
	} {
		v := *c
		if f(&v) {
			v.Only, v.MaxSites = nil, 0
			out = append(out, &v)
		}
	}
	return out
}

// ---------------------------------------------------------------- execution

type execInfo struct {
	sr        *ops.SingleRun
	txPool    string         // identity of the explicit transaction's pool ("" when none)
	setAge    map[string]int // record address -> Age a before-hook set
	markers   int            // marker rows written successfully by hooks
	nodes     []fam.Node     // records reachable from the arguments
	committed bool
}

func (c *Case) kind() string {
	if c.W != nil {
		return c.W.Kind
	}
	return c.R.Kind
}

func (c *Case) skipHooks() bool {
	if c.W != nil {
		return c.W.SkipHooks || c.W.Kind == "update_column" || c.W.Kind == "update_columns"
	}
	return c.R.SkipHooks
}

func (p Prop) exec(c *Case, f *ops.Fault) (*execInfo, error) {
	info := &execInfo{setAge: map[string]int{}}
	n := 0
	action := func(hc fam.HookCall, ev *ops.HookEvent) error {
		if hc.Model != "User" {
			return nil
		}
		u := hc.Rec.(*fam.User)
		if c.HookSets {
			switch hc.Hook {
			case "BeforeCreate":
				n++
				u.Age = 7000 + n
				info.setAge[ev.Rec] = u.Age
			case "BeforeUpdate":
				if k := c.kind(); k != "update" && k != "save" && k != "updates_self" && k != "updates_ptr" {
					break // the operation assigns Age itself; a second assignment under another key spelling is the caller's conflict
				}
				n++
				hc.Tx.Statement.SetColumn("Age", 7000+n)
				info.setAge[ev.Rec] = 7000 + n
			}
		}
		if c.HookWrites && (hc.Hook == "BeforeSave" || hc.Hook == "BeforeDelete") {
			w := hc.Tx
			if c.HookCtx {
				w = w.WithContext(context.WithValue(hc.Tx.Statement.Context, hookCtxKey{}, "hook"))
			}
			if err := w.Create(&fam.Marker{Text: fmt.Sprintf("marker-%s-%d", hc.Hook, info.markers)}).Error; err != nil {
				return fmt.Errorf("marker write through the hook's tx failed: %w", err)
			}
			info.markers++
		}
		return nil
	}
	sr, err := ops.RunSingle(env.Options{PrepareStmt: c.Prepare}, f, action, func(e *env.Env) ops.Result {
		db := e.DB
		if c.PriorSkip {
			h := db.WithContext(context.WithValue(context.Background(), hookCtxKey{}, "handle"))
			_ = h.Session(&gorm.Session{SkipHooks: true}) // its option is its own
			db = h
		}
		var tx *gorm.DB
		if c.ExplicitTx {
			tx = db.Begin()
			if tx.Error != nil {
				return ops.Result{Err: tx.Error}
			}
			info.txPool = fmt.Sprintf("%T@%p", tx.Statement.ConnPool, tx.Statement.ConnPool)
			db = tx
		}
		var res ops.Result
		if c.W != nil {
			res = c.W.Exec(db)
			for _, r := range res.Roots {
				fam.Walk(r, true, &info.nodes)
			}
		} else {
			res = c.R.Exec(db)
		}
		if tx != nil {
			if res.Err == nil {
				if err := tx.Commit().Error; err != nil {
					res.Err = err
				}
			} else {
				tx.Rollback()
			}
		}
		info.committed = res.Err == nil
		return res
	})
	info.sr = sr
	return info, err
}

var (
	patCreate = "BeforeSave,BeforeCreate,AfterCreate,AfterSave"
	patUpdate = "BeforeSave,BeforeUpdate,AfterUpdate,AfterSave"
	patDelete = "BeforeDelete,AfterDelete"
	patFind   = "AfterFind"
)

// afterFindTables: the tables whose model defines AfterFind.
func afterFindTables() map[string]bool {
	out := map[string]bool{}
	for _, m := range []string{"User", "Company", "Account", "Pet", "Toy", "Language"} {
		if !fam.NoHook[m]["AfterFind"] {
			out[fam.TableOf[m]] = true
		}
	}
	return out
}

func phase(h string) string {
	switch h {
	case "BeforeSave", "BeforeCreate", "BeforeUpdate":
		return "before"
	case "AfterCreate", "AfterUpdate", "AfterSave":
		return "after"
	}
	return h
}

func isCreateKind(k string) bool {
	return strings.HasPrefix(k, "create") || k == "save_slice"
}

// checkClean applies the fault-free oracles; it returns class, key, detail of the first failure.
func (p Prop) checkClean(c *Case, x *execInfo) (string, string, string) {
	sr := x.sr
	k := c.kind()
	if sr.Res.Err != nil {
		return "", "", "" // a genuinely failing operation (key collision …) is C05's business
	}
	if c.skipHooks() {
		if len(sr.Hooks) != 0 {
			h := sr.Hooks[0]
			return "hook_not_skipped", k, fmt.Sprintf("%d hook invocations (first: %s.%s) although hooks are skipped for this operation", len(sr.Hooks), h.Model, h.Hook)
		}
		return "", "", ""
	}
	// per record: one complete pattern, exactly once
	byRec := map[string][]ops.HookEvent{}
	var order []string
	for _, h := range sr.Hooks {
		if _, ok := byRec[h.Rec]; !ok {
			order = append(order, h.Rec)
		}
		byRec[h.Rec] = append(byRec[h.Rec], h)
	}
	node := map[string]fam.Node{}
	for _, n := range x.nodes {
		node[fmt.Sprintf("%p", n.Ptr)] = n
	}
	for _, rec := range order {
		evs := byRec[rec]
		var names []string
		for _, h := range evs {
			names = append(names, h.Hook)
		}
		seq := strings.Join(names, ",")
		model := evs[0].Model
		n, known := node[rec]
		var allowed []string
		switch {
		case c.R != nil && c.R.Kind == "foc_assign":
			allowed = []string{patFind + "," + patUpdate}
		case c.R != nil:
			allowed = []string{patFind}
		case known && n.Root:
			switch {
			case isCreateKind(k):
				allowed = []string{patCreate}
			case k == "save":
				if n.PK == "" || evs[0].Hook == "BeforeSave" && len(evs) > 1 && evs[1].Hook == "BeforeCreate" && false {
					allowed = []string{patCreate}
				} else {
					allowed = []string{patUpdate}
				}
				if c.W.Users[0].ID == 0 {
					allowed = []string{patCreate}
				}
			case strings.HasPrefix(k, "update"):
				allowed = []string{patUpdate}
			default:
				allowed = []string{patDelete}
			}
		case known:
			allowed = []string{patCreate} // association records are upserted through the create pipeline
		default:
			allowed = []string{patCreate, patUpdate, patDelete}
		}
		ok := false
		for i, a := range allowed {
			allowed[i] = fam.HookPattern(model, a) // the hooks this model defines
			if seq == allowed[i] {
				ok = true
			}
		}
		if c.R != nil && c.R.Kind == "find_in_batches" {
			ok = true // the caller's batch slice is reused: one address holds a different record in every batch
		}
		if model == "Memo" {
			ok = true // value-receiver hooks run on copies: no record identity; counted per operation below
		}
		if !ok {
			role := "internal"
			if known && n.Root {
				role = "argument"
			} else if known {
				role = "association"
			}
			return "hook_sequence", fmt.Sprintf("%s|%s|%s|%s", k, role, model, seq), fmt.Sprintf("%s record %s (%s) saw hooks [%s]; expected %v exactly once", role, rec, model, seq, allowed)
		}
		// the record's statement lies between its before- and after-hooks
		if c.R == nil {
			var lo, hi int64 = -1, -1
			loName, hiName := "", ""
			for _, h := range evs {
				switch {
				case strings.HasPrefix(h.Hook, "Before"):
					lo, loName = h.Seq, h.Hook
				case strings.HasPrefix(h.Hook, "After") && hi < 0:
					hi, hiName = h.Seq, h.Hook
				}
			}
			table := fam.TableOf[model]
			found := false
			for _, ev := range sr.Events {
				if (ev.Kind == "exec" || ev.Kind == "query") && ev.Seq > lo && (hi < 0 || ev.Seq < hi) && strings.Contains(ev.SQL, "`"+table+"`") {
					found = true
				}
			}
			if !found {
				return "hook_order", fmt.Sprintf("%s|%s", k, model), fmt.Sprintf("no statement on %s between the before-hooks (last: %s) and the after-hooks (first: %s) of record %s", table, loName, hiName, rec)
			}
		}
	}
	// every argument record was visited; for creating operations every reachable association record too
	if c.W != nil {
		dup := map[string]int{}
		for _, n := range x.nodes {
			if n.PK != "" {
				dup[n.Model+"/"+n.PK]++
			}
		}
		for _, n := range x.nodes {
			rec := fmt.Sprintf("%p", n.Ptr)
			if _, ok := byRec[rec]; ok {
				continue
			}
			if n.Root && k != "delete_pet" {
				return "hook_missing", fmt.Sprintf("%s|argument|%s", k, n.Model), fmt.Sprintf("argument record %s (%s) saw no hook at all", rec, n.Model)
			}
			underDup := false
			for _, a := range n.Anc {
				if dup[a] > 1 {
					underDup = true // gorm saves one of several records that carry the same key; which one is not specified
				}
			}
			if !n.Root && (isCreateKind(k) || (k == "save" && c.W.Users[0].ID == 0)) && !underDup {
				return "hook_missing", fmt.Sprintf("%s|association|%s", k, n.Model), fmt.Sprintf("association record %s (%s, key %q) reachable from the created value saw no hook", rec, n.Model, n.PK)
			}
		}
	}
	// single-record operations on the models with hook subsets: the model's own
	// pattern, exactly once
	if mp, ok := map[string][2]string{
		"create_toy": {"Toy", patCreate}, "update_toy": {"Toy", patUpdate},
		"create_account": {"Account", patCreate}, "update_account": {"Account", patUpdate},
		"delete_toy": {"Toy", patDelete}, "delete_account": {"Account", patDelete},
		"delete_lang": {"Language", patDelete}, "update_company": {"Company", patUpdate}, "delete_company": {"Company", patDelete},
		"update_pet":  {"Pet", patUpdate},
		"create_lang": {"Language", patCreate}, "update_lang": {"Language", patUpdate},
	}[k]; ok && (sr.Res.RowsAffected > 0 || strings.HasPrefix(k, "create")) {
		want := fam.HookPattern(mp[0], mp[1])
		var got []string
		for _, h := range sr.Hooks {
			if h.Model == mp[0] {
				got = append(got, h.Hook)
			}
		}
		if strings.Join(got, ",") != want {
			return "hook_sequence", k + "|" + mp[0] + "|" + strings.Join(got, ","), fmt.Sprintf("%s of one %s ran its hooks [%s]; the hooks it defines for this operation are [%s]", k, mp[0], strings.Join(got, ","), want)
		}
	}
	// a value-receiver hook has no record identity: count it per operation
	if k == "create_memo" || k == "save_memo" || k == "update_memo" {
		for _, hook := range []string{"BeforeSave", "AfterSave"} {
			n := 0
			for _, h := range sr.Hooks {
				if h.Model == "Memo" && h.Hook == hook {
					n++
				}
			}
			if n != 1 {
				return "hook_sequence", k + "|Memo." + hook + "|count", fmt.Sprintf("one Memo was saved, its %s (value receiver) ran %d times", hook, n)
			}
		}
	}
	// the operation's own transaction
	pool := ""
	for _, h := range sr.Hooks {
		if c.R != nil && c.R.Kind == "foc_assign" && h.Hook == "AfterFind" {
			continue // FirstOrCreate's look-up is a query of its own, outside the update's transaction
		}
		if pool == "" {
			pool = h.Pool
		}
		if h.Pool != pool {
			return "hook_tx", k + "|different_pools", fmt.Sprintf("hooks of one operation were given different connections: %s vs %s (%s.%s)", pool, h.Pool, h.Model, h.Hook)
		}
		if c.W != nil && !h.InTx {
			return "hook_tx", k + "|not_in_tx", fmt.Sprintf("%s.%s ran outside a transaction (%s)", h.Model, h.Hook, h.Pool)
		}
		if x.txPool != "" && h.Pool != x.txPool {
			return "hook_tx", k + "|not_callers_tx", fmt.Sprintf("%s.%s was given %s instead of the caller's transaction %s", h.Model, h.Hook, h.Pool, x.txPool)
		}
	}
	// AfterFind: once per delivered row of the model's table
	if c.R != nil {
		delivered := map[string]int{}
		found := map[string]int{}
		type item struct {
			seq  int64
			tbl  string
			rows int
			hook bool
		}
		var items []item
		for _, ev := range sr.Events {
			if ev.Kind == "rows_close" && strings.HasPrefix(ev.SQL, "SELECT") {
				w := ops.SQLSig(ev.SQL)
				items = append(items, item{ev.Seq, strings.TrimPrefix(w, "SELECT "), ev.Rows, false})
			}
		}
		for _, h := range sr.Hooks {
			if h.Hook == "AfterFind" {
				items = append(items, item{h.Seq, fam.TableOf[h.Model], 1, true})
			}
		}
		sort.Slice(items, func(i, j int) bool { return items[i].seq < items[j].seq })
		for _, it := range items {
			if it.hook {
				found[it.tbl]++
				if found[it.tbl] > delivered[it.tbl] {
					return "hook_sequence", k + "|afterfind_early|" + it.tbl, fmt.Sprintf("AfterFind #%d on %s fired when only %d rows had been loaded", found[it.tbl], it.tbl, delivered[it.tbl])
				}
			} else {
				delivered[it.tbl] += it.rows
			}
		}
		if c.R.Kind == "joins" {
			// records loaded through Joins are loaded records too: one AfterFind each
			if us, ok := sr.Res.Value.(*[]fam.User); ok {
				joined := map[string]int{}
				for i := range *us {
					if (*us)[i].Company != nil && (*us)[i].Company.ID != 0 {
						joined["companies"]++
					}
					if (*us)[i].Manager != nil && (*us)[i].Manager.ID != 0 {
						joined["users"]++
					}
				}
				for _, tbl := range []string{"companies", "users"} {
					if !afterFindTables()[tbl] {
						continue
					}
					want := joined[tbl]
					if tbl == "users" {
						want += delivered["users"]
					}
					if found[tbl] < want {
						return "hook_missing", k + "|afterfind_joined|" + tbl, fmt.Sprintf("%d %s records were loaded through Joins (plus %d rows of the queried table) but AfterFind fired %d times on that model", joined[tbl], tbl, want-joined[tbl], found[tbl])
					}
				}
			}
		}
		for tbl, n := range delivered {
			if hooked := afterFindTables()[tbl]; hooked && found[tbl] != n {
				return "hook_missing", k + "|afterfind|" + tbl, fmt.Sprintf("%d rows of %s were loaded but AfterFind fired %d times", n, tbl, found[tbl])
			}
		}
	}
	// values set by before-hooks are the values stored
	if c.HookSets && c.W != nil && x.committed && (sr.Res.RowsAffected > 0 || !strings.HasPrefix(k, "update")) {
		for _, n := range x.nodes {
			if !n.Root {
				continue
			}
			rec := fmt.Sprintf("%p", n.Ptr)
			want, ok := x.setAge[rec]
			if !ok {
				continue
			}
			id := n.Ptr.(*fam.User).ID
			same := 0
			for _, m := range x.nodes {
				if m.Model == "User" && m.Ptr.(*fam.User).ID == id {
					same++
				}
			}
			if same > 1 {
				continue // two records of the value carry this key (argument or association): which one is stored last is not specified
			}
			line := ""
			for _, l := range strings.Split(sr.D1, "\n") {
				if strings.HasPrefix(l, fmt.Sprintf("%d|", id)) && strings.Contains(l, "UTC|") {
					line = l
				}
			}
			f := strings.Split(line, "|")
			if len(f) < 6 || f[5] != fmt.Sprint(want) {
				return "hook_value_lost", k, fmt.Sprintf("a before-hook set Age=%d on record %s (id %d) but the stored row is %q", want, rec, id, line)
			}
		}
	}
	if c.HookWrites && x.committed {
		got := strings.Count(sr.D1, "|marker-")
		if got != x.markers {
			return "hook_tx", k + "|marker_rows", fmt.Sprintf("hooks wrote %d marker rows through their tx, %d are stored after the operation committed", x.markers, got)
		}
	}
	return "", "", ""
}

// checkAbort applies the oracles of a run whose hook invocation f failed.
func (p Prop) checkAbort(c *Case, x *execInfo, f *ops.Fault, base *execInfo) (string, string, string) {
	sr := x.sr
	k := c.kind() + "|" + f.Hook.Model + "." + f.Hook.Hook
	// a failing hook can only cut the operation short: no hook is invoked more
	// often than in the fault-free run
	if base != nil {
		count := func(hs []ops.HookEvent) map[string]int {
			m := map[string]int{}
			for _, h := range hs {
				m[h.Model+"."+h.Hook]++
			}
			return m
		}
		was := count(base.sr.Hooks)
		for name, n := range count(sr.Hooks) {
			if n > was[name] {
				return "hook_sequence", k + "|more_often_than_without_fault|" + name, fmt.Sprintf("%s ran %d times in the run where %s.%s#%d failed, %d times in the fault-free run", name, n, f.Hook.Model, f.Hook.Hook, f.Hook.Occ, was[name])
			}
		}
	}
	if !sr.HookFired {
		return "nondeterministic", k, "the hook invocation chosen from the fault-free run did not happen in the faulted run"
	}
	if sr.Res.Err == nil {
		return "swallowed_hook_error", k, fmt.Sprintf("hook %s.%s#%d returned an error but the operation returned Error=nil", f.Hook.Model, f.Hook.Hook, f.Hook.Occ)
	}
	if !strings.Contains(sr.Res.Err.Error(), f.Marker()) {
		return "error_not_reported", k, fmt.Sprintf("the returned Error %q does not carry the hook's error", sr.Res.Err)
	}
	// nothing of a later phase after the failing invocation
	var failSeq int64 = -1
	var failEv ops.HookEvent
	for _, h := range sr.Hooks {
		if h.Err != "" && strings.Contains(h.Err, f.Marker()) {
			failSeq, failEv = h.Seq, h
			break
		}
	}
	// a failing before-hook of an argument record comes before every later phase
	// of the operation — saving its associations, its own statement, the
	// after-hooks: nothing of those may have happened already when it ran (the
	// before-hooks of the other argument records of a slice may)
	// (not for batched creates: every batch is a complete pipeline of its own)
	if c.W != nil && phase(failEv.Hook) == "before" && c.W.Kind != "create_batches" && c.W.SessBatch == 0 {
		roots := map[string]bool{}
		for _, n := range x.nodes {
			if n.Root {
				roots[fmt.Sprintf("%p", n.Ptr)] = true
			}
		}
		if roots[failEv.Rec] {
			for _, h := range sr.Hooks {
				if h.Seq < failSeq && !(roots[h.Rec] && phase(h.Hook) == "before") {
					return "ran_before_hook_error", k + "|hook:" + h.Model + "." + h.Hook, fmt.Sprintf("%s.%s of an argument record failed, but %s.%s (a later phase of the operation) had already run", failEv.Model, failEv.Hook, h.Model, h.Hook)
				}
			}
			for _, ev := range sr.Events {
				if strings.Contains(ev.SQL, "`markers`") || ev.Seq >= failSeq || x.txPool != "" {
					continue
				}
				if (ev.Kind == "exec" || ev.Kind == "query") && (strings.HasPrefix(ev.SQL, "INSERT") || strings.HasPrefix(ev.SQL, "UPDATE") || strings.HasPrefix(ev.SQL, "DELETE")) {
					return "ran_before_hook_error", k + "|stmt:" + ops.SQLSig(ev.SQL), fmt.Sprintf("%s.%s of an argument record failed, but the driver had already received %s", failEv.Model, failEv.Hook, ev.SQL)
				}
			}
		}
	}
	for _, h := range sr.Hooks {
		if h.Seq > failSeq && !(h.Model == failEv.Model && phase(h.Hook) == phase(failEv.Hook)) {
			return "ran_after_hook_error", k + "|hook:" + h.Model + "." + h.Hook, fmt.Sprintf("after %s.%s failed, hook %s.%s still ran", failEv.Model, failEv.Hook, h.Model, h.Hook)
		}
	}
	for _, ev := range sr.Events {
		if strings.Contains(ev.SQL, "`markers`") || strings.HasPrefix(ev.SQL, "ROLLBACK TO ") {
			continue // the harness hooks' own marker writes; undo statements
		}
		if ev.Seq > failSeq && (ev.Kind == "exec" || ev.Kind == "query" || ev.Kind == "commit" || ev.Kind == "begin" || ev.Kind == "prepare") && c.R == nil {
			return "ran_after_hook_error", k + "|stmt:" + ev.Kind + " " + ops.SQLSig(ev.SQL), fmt.Sprintf("after %s.%s failed, the driver still received %s %s", failEv.Model, failEv.Hook, ev.Kind, ev.SQL)
		}
	}
	if sr.D1 != sr.D0 {
		return "not_rolled_back", k, "the hook error was returned but the database changed"
	}
	return "", "", ""
}

func (p Prop) Run(ci interface{}, focus *core.Violation) *core.Outcome {
	c := ci.(*Case)
	out := &core.Outcome{}
	base, err := p.exec(c, nil)
	if err != nil {
		out.Trouble = "fault-free run: " + err.Error()
		return out
	}
	out.Runs++
	sr := base.sr
	h0 := core.Hash(sr.TraceHashParts()...)
	out.TraceHash = h0
	if v := sr.HungViolation(); v != nil {
		v.Key += "|no_fault"
		out.Report(v, focus, h0)
		return out
	}
	if len(sr.Hooks) > 0 {
		out.Hashes = append(out.Hashes, h0)
	}
	out.Count("hook_invocations_fault_free", int64(len(sr.Hooks)))
	out.Sample = map[string]interface{}{"case": c, "fault_free_hooks": len(sr.Hooks), "fault_free_driver_calls": len(sr.Events)}
	if l := sr.Leak(); l != "" {
		if out.Report(&core.Violation{Class: "leak", Key: c.kind() + "|no_fault", Detail: l}, focus, h0) {
			return out
		}
	}
	if sr.DumpErr != nil {
		out.Trouble = "dump: " + sr.DumpErr.Error()
		return out
	}
	if sr.Res.Err != nil {
		out.Count("fault_free_op_failed", 1)
		if strings.Contains(sr.Res.Err.Error(), "marker write through") {
			if out.Report(&core.Violation{Class: "hook_tx", Key: c.kind() + "|marker_write_failed", Detail: "a hook could not write through the *gorm.DB it was given: " + sr.Res.Err.Error()}, focus, h0) {
				c.Only = []ops.Fault{}
				return out
			}
		}
	}
	if cl, key, det := p.checkClean(c, base); cl != "" {
		if out.Report(&core.Violation{Class: cl, Key: "no_fault|" + key, Detail: det}, focus, h0) {
			c.Only = []ops.Fault{}
			return out
		}
	}
	if sr.Res.Err != nil {
		return out
	}
	var faults []ops.Fault
	if c.Only != nil {
		faults = c.Only
	} else {
		id := 0
		faults = ops.HookSites(sr.Hooks, &id)
		ops.SortFaults(faults)
		ops.ApplyClass(faults, c.ErrClass)
		out.Count("sites_total", int64(len(faults)))
		if c.MaxSites > 0 && len(faults) > c.MaxSites {
			r := core.NewRand(c.Pick)
			var picked []ops.Fault
			for _, i := range r.Perm(len(faults))[:c.MaxSites] {
				picked = append(picked, faults[i])
			}
			faults = picked
		}
	}
	seen := map[string]bool{h0: true}
	// ---- the operation's own transaction cannot be started: whatever runs afterwards
	// would not run in it, so no hook may fire after the failed BEGIN
	beginOnly := len(c.Only) == 1 && c.Only[0].Drv != nil
	if (c.Only == nil || beginOnly) && !c.ExplicitTx && c.W != nil {
		hasBegin := false
		for _, ev := range sr.Events {
			if ev.Task >= 0 && ev.Kind == "begin" {
				hasBegin = true
				break
			}
		}
		if hasBegin {
			bf := ops.Fault{Drv: &simdrv.Fault{ID: 9001, Kind: "begin", Occ: 0, Type: "err"}}
			x, err := p.exec(c, &bf)
			if err != nil {
				out.Trouble = "failed-begin run: " + err.Error()
				return out
			}
			out.Runs++
			h := ops.FaultedHash(h0, bf.String(), x.sr)
			if !seen[h] {
				seen[h] = true
				out.Hashes = append(out.Hashes, h)
			}
			if v := x.sr.HungViolation(); v != nil {
				v.Key += "|" + bf.Short()
				if out.Report(v, focus, h) {
					c.Only = []ops.Fault{bf}
				}
				return out
			}
			var failSeq int64 = -1
			for _, ev := range x.sr.Events {
				if ev.Kind == "begin" && ev.Fault != "" {
					failSeq = ev.Seq
					break
				}
			}
			if failSeq >= 0 {
				out.Count("fired:begin_err", 1)
				for _, hk := range x.sr.Hooks {
					if hk.Seq > failSeq {
						v := &core.Violation{Class: "ran_after_failed_begin", Key: c.kind() + "|hook:" + hk.Model + "." + hk.Hook, Detail: fmt.Sprintf("with [%s]: the operation's transaction could not be started (returned error %v), yet %s.%s ran afterwards", &bf, x.sr.Res.Err, hk.Model, hk.Hook)}
						if out.Report(v, focus, h) {
							c.Only = []ops.Fault{bf}
							return out
						}
						break
					}
				}
			}
		}
	}
	for i := range faults {
		f := &faults[i]
		if f.Hook == nil {
			continue
		}
		x, err := p.exec(c, f)
		if err != nil {
			out.Trouble = "faulted run: " + err.Error()
			return out
		}
		out.Runs++
		if v := x.sr.HungViolation(); v != nil {
			v.Key += "|" + f.Short()
			v.Detail = fmt.Sprintf("with [%s]: %s", f, v.Detail)
			if out.Report(v, focus, ops.FaultedHash(h0, f.String(), x.sr)) {
				c.Only = []ops.Fault{*f}
			}
			return out
		}
		h := ops.FaultedHash(h0, f.String(), x.sr)
		if !seen[h] {
			seen[h] = true
			out.Hashes = append(out.Hashes, h)
		}
		if x.sr.HookFired {
			out.Count("fired:hook_err:"+f.Hook.Hook, 1)
			if f.Hook.Occ > 0 {
				out.Count("probe:hook_failed_on_non_first_record", 1)
			}
		}
		if l := x.sr.Leak(); l != "" {
			if out.Report(&core.Violation{Class: "leak", Key: c.kind() + "|" + f.Short(), Detail: fmt.Sprintf("after [%s]: %s", f, l)}, focus, h) {
				c.Only = []ops.Fault{*f}
				return out
			}
			continue
		}
		if x.sr.DumpErr != nil {
			out.Trouble = "dump: " + x.sr.DumpErr.Error()
			return out
		}
		if cl, key, det := p.checkAbort(c, x, f, base); cl != "" {
			if out.Report(&core.Violation{Class: cl, Key: key, Detail: fmt.Sprintf("with [%s]: %s", f, det)}, focus, h) {
				c.Only = []ops.Fault{*f}
				return out
			}
		}
	}
	return out
}
