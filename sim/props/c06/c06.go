// Package c06: reusable handles are never changed by the chains and queries
// derived from them.
//
// K logical clients on one goroutine grow a tree of reusable handles (Session,
// WithContext, Debug, Begin, and the `chain….Session(&Session{})` idiom) and
// build chains from them step by step; the schedule vector interleaves the
// clients' steps.  Every executed finisher's SQL text, bound values, error and
// rows must equal those of the same chain replayed alone — only its own
// ancestry — on a fresh Open.
package c06

import (
	"context"
	"encoding/json"
	"fmt"
	"reflect"
	"sort"
	"strings"

	"gorm.io/gorm"
	"gorm.io/gorm/clause"

	"verif/sim/core"
	"verif/sim/env"
	"verif/sim/fam"
	"verif/sim/simdrv"
)

type Step struct {
	M string   `json:"m"`
	V int      `json:"v,omitempty"` // argument form
	S string   `json:"s,omitempty"`
	N int      `json:"n,omitempty"`
	L []string `json:"l,omitempty"`
	H int      `json:"h,omitempty"` // handle used as sub-query source
}

type Chain struct {
	From  int    `json:"from"` // handle index: 0 = the opened DB, i+1 = the handle chain i ended in
	Steps []Step `json:"steps"`
	End   string `json:"end"` // session with_context debug begin | a finisher | abandon
	Dry   bool   `json:"dry,omitempty"`
}

type Case struct {
	Chains  []Chain `json:"chains"`
	Order   []int   `json:"order"` // which chain advances next (entries for finished or not-yet-startable chains are skipped)
	DryRun  bool    `json:"dry_run"`
	Prepare bool    `json:"prepare_stmt"`
}

type Prop struct{}

func (Prop) ID() string    { return "C06" }
func (Prop) Level() string { return "exploration" }
func (Prop) Rule() string {
	return "a case is a history: up to 12 chains over a tree of reusable handles (Open, Session, WithContext, Debug, Begin, chain.Session), each a sequence of chain methods (Where/Or/Not in string, map, struct, slice and sub-query forms, Select, Omit, Order, Limit, Offset, Group, Having, Joins, Distinct, Unscoped, Scopes, Preload, Clauses(Returning, OrderBy, Locking, OnConflict), Table, Model, Attrs, Assign) ended by a derivation, a finisher (Find, First, Take, Count, Pluck, Rows, Scan, FindInBatches, FirstOrInit, Update, Updates, Delete, Create) or abandoned, plus a schedule that interleaves the chains' steps; whole history in DryRun or real mode. One evaluation = one history with every finisher compared against its isolated replay; non-trivial = at least two chains interleaved on a shared handle; distinct = distinct hash of (step interleaving, chain shapes)"
}
func (Prop) Assumptions() []string {
	return []string{
		"intermediate chain values are used linearly (gorm documents that reusing them is unsafe); only handles are shared",
		"a single chain is deterministic: the isolated replay is itself run twice and must agree with itself",
		"in real mode write finishers run through a DryRun session so that later reads see the same rows in the history and in the replay",
	}
}

// ---------------------------------------------------------------- generation

var derivations = []string{"session_batch", "session", "session", "with_context", "debug", "begin", "session_newdb", "session_skiphooks", "session_newdb_skiphooks", "session_newdb_ctx", "session_ctx_skiphooks"}
var readFins = []string{"find", "find", "first", "take", "count", "pluck", "rows", "scan", "find_in_batches", "first_or_init", "count_direct", "count_direct", "pluck_direct", "rows_direct", "scan_direct", "last", "row_direct", "row_direct", "row", "tx_direct"}
var writeFins = []string{"update", "updates", "delete", "create", "update_direct", "create_slice_direct", "create_slice_direct"}
var methods = []string{"preload", "preload", "model", "model", "where", "where", "where", "or", "not", "select", "omit", "order", "order", "limit", "offset", "group", "having", "joins", "joins", "distinct", "unscoped", "scopes", "preload", "returning", "returning", "order_clause", "locking", "on_conflict", "table", "model", "attrs", "assign", "where_sub", "where_group", "where_group", "joins_db", "table", "from_clause", "group_clause", "limit_clause", "insert_modifier", "inner_joins", "select_expr", "omit_assoc"}

func genStep(r *core.Rand, nHandles int, palette []string) Step {
	st := Step{M: r.Pick(palette), V: r.Intn(6), S: fmt.Sprintf("s%d", r.Intn(50)), N: r.Intn(40)}
	n := 1 + r.Intn(3)
	cols := []string{"name", "age", "id", "company_id", "created_at"}
	for _, i := range r.Perm(len(cols))[:n] {
		st.L = append(st.L, cols[i])
	}
	if st.M == "where_sub" || st.M == "where_group" || st.M == "joins_db" {
		st.H = r.Intn(nHandles)
	}
	return st
}

func (Prop) Gen(r *core.Rand, tier string) interface{} {
	c := &Case{DryRun: r.Chance(60), Prepare: r.Chance(20)}
	// swarm: every history draws its chain methods from a small palette, so that
	// several chains touch the same clause of the same handle
	palette := methods
	if r.Chance(80) {
		palette = nil
		for _, i := range r.Perm(len(methods))[:1+r.Intn(4)] {
			palette = append(palette, methods[i])
		}
	}
	fins := append(append([]string{}, readFins...), writeFins...)
	if r.Chance(60) {
		fins = nil
		all := append(append([]string{}, readFins...), writeFins...)
		for _, i := range r.Perm(len(all))[:1+r.Intn(3)] {
			fins = append(fins, all[i])
		}
	}
	n := 3 + r.Intn(6)
	if tier == "thorough" {
		n = 3 + r.Intn(10)
	}
	handles := 1
	for i := 0; i < n; i++ {
		ch := Chain{From: r.Intn(handles)}
		if r.Chance(50) {
			ch.From = handles - 1 // bias towards the most recently created handle: deeper trees
		}
		if r.Chance(35) && handles > 1 {
			ch.From = 1 + r.Intn(handles-1)
		}
		for j, k := 0, r.Intn(5); j < k; j++ {
			ch.Steps = append(ch.Steps, genStep(r, handles, palette))
		}
		switch x := r.Intn(10); {
		case x < 3 && i < n-1:
			ch.End = r.Pick(derivations)
			if strings.HasPrefix(ch.End, "session_") && r.Chance(60) {
				ch.Steps = nil // a sub-session taken straight from the handle
			} else if len(ch.Steps) == 0 {
				ch.Steps = append(ch.Steps, genStep(r, handles, palette))
			}
		case x < 9:
			ch.End = r.Pick(fins)
		default:
			ch.End = "abandon"
		}
		if isWrite(ch.End) {
			ch.Dry = true
		}
		c.Chains = append(c.Chains, ch)
		// every chain reserves a handle index; only derivations fill it
		handles++
	}
	// fix From references: they must point at the root or at a derivation chain
	for i := range c.Chains {
		f := c.Chains[i].From
		for f > 0 && (f-1 >= i || !isDerivation(c.Chains[f-1].End)) {
			f--
		}
		c.Chains[i].From = f
		for j := range c.Chains[i].Steps {
			h := c.Chains[i].Steps[j].H
			for h > 0 && (h-1 >= i || !isDerivation(c.Chains[h-1].End)) {
				h--
			}
			c.Chains[i].Steps[j].H = h
		}
	}
	if r.Chance(8) {
		// scenario: a handle whose context is already over; a Transaction block
		// started straight on it (its BEGIN fails), then another chain from the handle
		base := len(c.Chains)
		c.Chains = append(c.Chains,
			Chain{From: 0, End: "session_newdb_ctx"},
			Chain{From: base + 1, End: "tx_direct"},
			Chain{From: base + 1, Steps: []Step{genStep(r, 1, []string{"where", "order", "limit"})}, End: r.Pick([]string{"find", "count", "first"})})
		c.DryRun = true
	}
	total := 0
	for _, ch := range c.Chains {
		total += len(ch.Steps) + 1
	}
	for i := 0; i < total*2; i++ {
		c.Order = append(c.Order, r.Intn(len(c.Chains)))
	}
	return c
}

func isWrite(e string) bool {
	return e == "update" || e == "updates" || e == "delete" || e == "create" || e == "update_direct" || e == "create_slice_direct"
}

func isDerivation(e string) bool {
	return e == "session" || e == "with_context" || e == "debug" || e == "begin" || strings.HasPrefix(e, "session_")
}

func (Prop) Decode(raw json.RawMessage) (interface{}, error) {
	c := &Case{}
	return c, json.Unmarshal(raw, c)
}

func (Prop) Shrink(ci interface{}) []interface{} {
	c := ci.(*Case)
	var out []interface{}
	// drop a chain nobody depends on
	for i := range c.Chains {
		used := false
		for j := range c.Chains {
			if c.Chains[j].From == i+1 {
				used = true
			}
			for _, st := range c.Chains[j].Steps {
				if (st.M == "where_sub" || st.M == "where_group" || st.M == "joins_db") && st.H == i+1 {
					used = true
				}
			}
		}
		if used {
			continue
		}
		v := *c
		v.Chains = nil
		for j, ch := range c.Chains {
			if j == i {
				continue
			}
			ch2 := ch
			ch2.Steps = append([]Step{}, ch.Steps...)
			if ch2.From > i+1 {
				ch2.From--
			}
			for k := range ch2.Steps {
				if ch2.Steps[k].H > i+1 {
					ch2.Steps[k].H--
				}
			}
			v.Chains = append(v.Chains, ch2)
		}
		v.Order = nil
		for _, o := range c.Order {
			if o == i {
				continue
			}
			if o > i {
				o--
			}
			v.Order = append(v.Order, o)
		}
		out = append(out, &v)
	}
	// drop a step
	for i := range c.Chains {
		for j := range c.Chains[i].Steps {
			v := *c
			v.Chains = append([]Chain{}, c.Chains...)
			ch := c.Chains[i]
			ch.Steps = append(append([]Step{}, ch.Steps[:j]...), ch.Steps[j+1:]...)
			v.Chains[i] = ch
			out = append(out, &v)
		}
	}
	// sequential order
	if len(c.Order) > 0 {
		v := *c
		v.Order = nil
		out = append(out, &v)
		v2 := *c
		v2.Order = c.Order[:len(c.Order)/2]
		out = append(out, &v2)
	}
	if c.Prepare {
		v := *c
		v.Prepare = false
		out = append(out, &v)
	}
	return out
}

// ---------------------------------------------------------------- applying steps

func strs(l []string) []string { return append([]string{}, l...) }

// callerSlices are column lists the "caller" of a history defines once and
// passes to several chains (like `cols := make([]string, 0, 8)` in user code):
// one slice with spare capacity per distinct content.  A replay in isolation
// has its own.
type callerSlices map[string][]string

func (cs callerSlices) get(l []string) []string {
	k := strings.Join(l, ",")
	if v, ok := cs[k]; ok {
		return v
	}
	v := make([]string, len(l), len(l)+6)
	copy(v, l)
	cs[k] = v
	return v
}

// apply performs one chain method with freshly built argument values (except
// the caller-owned column lists of cs).
func apply(db *gorm.DB, st Step, handles []*gorm.DB, cs callerSlices) *gorm.DB {
	cond := func(f func(query interface{}, args ...interface{}) *gorm.DB) *gorm.DB {
		switch st.V {
		case 0:
			return f("name = ?", st.S)
		case 1:
			return f("age > ? AND age < ?", st.N, st.N+30)
		case 2:
			return f(map[string]interface{}{"name": st.S, "age": st.N})
		case 3:
			return f(&fam.User{Name: st.S, Age: st.N})
		case 4:
			return f("name IN ?", []string{st.S, st.S + "x", "fu1"})
		default:
			return f(clause.Or(clause.Eq{Column: "name", Value: st.S}, clause.Gt{Column: "age", Value: st.N}))
		}
	}
	switch st.M {
	case "where":
		return cond(db.Where)
	case "or":
		return cond(db.Or)
	case "not":
		return cond(db.Not)
	case "where_sub":
		h := handles[0]
		if st.H < len(handles) && handles[st.H] != nil {
			h = handles[st.H]
		}
		return db.Where("id IN (?)", h.Model(&fam.User{}).Select("id").Where("age >= ?", st.N))
	case "where_group":
		// a reusable handle used as a group condition of another chain
		h := handles[0]
		if st.H < len(handles) && handles[st.H] != nil {
			h = handles[st.H]
		}
		if st.V%2 == 0 {
			return db.Where(h)
		}
		return db.Or(h)
	case "joins_db":
		// a reusable handle as the condition argument of a relation join
		h := handles[0]
		if st.H < len(handles) && handles[st.H] != nil {
			h = handles[st.H]
		}
		if st.V%2 == 0 {
			return db.Joins("Company", h)
		}
		return db.InnerJoins("Manager", h)
	case "select":
		if st.V%3 == 0 {
			return db.Select(strs(st.L))
		}
		if st.V%3 == 1 && cs != nil {
			// a caller-owned list plus one more column
			return db.Select(cs.get(st.L[:1]), st.S)
		}
		args := []interface{}{}
		for _, x := range st.L[1:] {
			args = append(args, x)
		}
		return db.Select(st.L[0], args...)
	case "omit":
		return db.Omit(strs(st.L)...)
	case "order":
		if st.V%2 == 0 {
			return db.Order(st.L[0] + " desc")
		}
		return db.Order(clause.OrderByColumn{Column: clause.Column{Name: st.L[0]}, Desc: st.V%3 == 0})
	case "limit":
		return db.Limit(1 + st.N%7)
	case "offset":
		return db.Offset(st.N % 5)
	case "group":
		return db.Group(st.L[0])
	case "having":
		return db.Having("count(*) > ?", st.N%3)
	case "joins":
		if st.V%2 == 0 {
			return db.Joins("Company")
		}
		return db.Joins("JOIN companies ON companies.id = users.company_id AND companies.name <> ?", st.S)
	case "distinct":
		if st.V%2 == 0 {
			return db.Distinct()
		}
		return db.Distinct(st.L[0])
	case "unscoped":
		return db.Unscoped()
	case "scopes":
		n := st.N
		return db.Scopes(func(d *gorm.DB) *gorm.DB { return d.Where("age < ?", 100+n) })
	case "preload":
		if st.V%2 == 0 {
			return db.Preload("Pets")
		}
		return db.Preload("Pets", "name <> ?", st.S)
	case "returning":
		cols := []clause.Column{}
		for _, x := range st.L {
			cols = append(cols, clause.Column{Name: x})
		}
		return db.Clauses(clause.Returning{Columns: cols})
	case "order_clause":
		return db.Clauses(clause.OrderBy{Columns: []clause.OrderByColumn{{Column: clause.Column{Name: st.L[0]}, Desc: true}}})
	case "locking":
		return db.Clauses(clause.Locking{Strength: "UPDATE"})
	case "on_conflict":
		if st.V%2 == 0 {
			return db.Clauses(clause.OnConflict{DoNothing: true})
		}
		return db.Clauses(clause.OnConflict{Columns: []clause.Column{{Name: "id"}}, DoUpdates: clause.AssignmentColumns(strs(st.L))})
	case "from_clause":
		joins := make([]clause.Join, 0, 4) // spare capacity: anything appended in place would be shared
		joins = append(joins, clause.Join{Type: clause.LeftJoin, Table: clause.Table{Name: "companies"},
			ON: clause.Where{Exprs: []clause.Expression{clause.Eq{Column: clause.Column{Table: "companies", Name: "id"}, Value: clause.Column{Table: "users", Name: "company_id"}}}}})
		return db.Clauses(clause.From{Joins: joins})
	case "group_clause":
		cols := make([]clause.Column, 0, 4)
		cols = append(cols, clause.Column{Name: st.L[0]})
		return db.Clauses(clause.GroupBy{Columns: cols, Having: []clause.Expression{clause.Gt{Column: clause.Column{Name: "age"}, Value: st.N}}})
	case "limit_clause":
		n := 1 + st.N%5
		return db.Clauses(clause.Limit{Limit: &n, Offset: st.N % 3})
	case "insert_modifier":
		return db.Clauses(clause.Insert{Modifier: "OR IGNORE"})
	case "inner_joins":
		return db.InnerJoins("Manager")
	case "select_expr":
		return db.Select("name, age + ? AS age", st.N)
	case "omit_assoc":
		return db.Omit(clause.Associations)
	case "table":
		switch st.V % 4 {
		case 0:
			return db.Table("users")
		case 1:
			return db.Table("users AS users")
		case 2:
			return db.Table("(?) AS users", db.Session(&gorm.Session{NewDB: true}).Model(&fam.User{}).Where("age >= ?", st.N))
		default:
			return db.Table("pets")
		}
	case "model":
		return db.Model(&fam.User{})
	case "attrs":
		return db.Attrs(fam.User{Age: st.N})
	case "assign":
		return db.Assign(map[string]interface{}{"age": st.N})
	}
	return db
}

type obs struct {
	SQL  []string
	Err  string
	Rows string
}

func (o obs) String() string {
	return fmt.Sprintf("sql=%q err=%q rows=%q", o.SQL, o.Err, o.Rows)
}

func renderVars(vs []interface{}) string {
	parts := make([]string, len(vs))
	for i, v := range vs {
		rv := reflect.ValueOf(v)
		for rv.IsValid() && rv.Kind() == reflect.Ptr && !rv.IsNil() {
			rv = rv.Elem()
		}
		if rv.IsValid() {
			parts[i] = fmt.Sprintf("%v", rv.Interface())
		} else {
			parts[i] = "<nil>"
		}
	}
	return strings.Join(parts, ",")
}

func renderUsers(us []fam.User) string {
	var b strings.Builder
	for _, u := range us {
		fmt.Fprintf(&b, "%d/%s/%d", u.ID, u.Name, u.Age)
		if u.Company != nil {
			fmt.Fprintf(&b, "/c%d", u.Company.ID)
		}
		for _, p := range u.Pets {
			fmt.Fprintf(&b, "/p%d", p.ID)
		}
		b.WriteString(";")
	}
	return b.String()
}

// finish runs the finisher and returns what is observable.
func finish(e *env.Env, db *gorm.DB, ch Chain, dry bool) (o obs) {
	defer func() {
		// some chain/finisher combinations make gorm panic on their own (e.g. Pluck
		// over a multi-column Select); that is the same in the history and in the
		// isolated replay and is compared like any other outcome
		if pv := recover(); pv != nil {
			o.Err = "panic: " + firstLine(fmt.Sprint(pv))
		}
	}()
	if ch.Dry && !dry {
		db = db.Session(&gorm.Session{DryRun: true})
	}
	before := len(e.Drv.Events())
	var tx *gorm.DB
	switch ch.End {
	case "find":
		var us []fam.User
		tx = db.Find(&us)
		o.Rows = renderUsers(us)
	case "first":
		var u fam.User
		tx = db.First(&u)
		o.Rows = renderUsers([]fam.User{u})
	case "take":
		var u fam.User
		tx = db.Take(&u)
		o.Rows = renderUsers([]fam.User{u})
	case "count":
		var n int64
		tx = db.Model(&fam.User{}).Count(&n)
		o.Rows = fmt.Sprint(n)
	// the *_direct finishers run on the chain value as it is (no Model(...) call of
	// their own, which would be one more derivation step): executed from a handle
	// with no steps in between they run directly on the reusable handle
	case "count_direct":
		var n int64
		tx = db.Count(&n)
		o.Rows = fmt.Sprint(n)
	case "pluck_direct":
		var names []string
		tx = db.Pluck("name", &names)
		o.Rows = strings.Join(names, ",")
	case "rows_direct":
		rows, err := db.Rows()
		tx = db
		if err != nil {
			o.Err = err.Error()
		} else if rows != nil {
			n := 0
			for rows.Next() {
				n++
			}
			rows.Close()
			o.Rows = fmt.Sprint(n)
		}
	case "tx_direct":
		// a Transaction block started straight on the handle (its BEGIN fails when the
		// handle's context is already over)
		var n int64
		var err error
		if db.Error != nil {
			// a handle that already failed (Begin on a transaction handle, …): SAVEPOINT
			// would add the handle's own error to it once more, the sticky-error behaviour
			// examined in DESIGN.md section 13
			err = db.Error
		} else {
			h := db
			if _, inTx := db.Statement.ConnPool.(gorm.TxCommitter); inTx {
				// inside a transaction the block is a nested one: a SAVEPOINT that fails
				// (the handle's context may be over) is added to the handle it was called
				// on - the same sticky-error behaviour - so it is called on a session
				h = db.Session(&gorm.Session{})
			}
			err = h.Transaction(func(tx *gorm.DB) error {
				return tx.Model(&fam.User{}).Count(&n).Error
			})
		}
		tx = db
		if err != nil {
			o.Err = firstLine(err.Error())
		}
		o.Rows = fmt.Sprint(n)
	case "row_direct", "row":
		h := db
		if ch.End == "row" {
			h = db.Model(&fam.User{})
		}
		row := h.Select("name").Row()
		if ch.End == "row_direct" {
			row = db.Row() // straight on the handle, no chain method in between
		}
		tx = db
		if row != nil {
			var name string
			if err := row.Scan(&name); err != nil {
				o.Err = firstLine(err.Error())
			}
			o.Rows = name
		} else {
			o.Rows = "<nil row>"
		}
	case "scan_direct":
		var us []fam.User
		tx = db.Scan(&us)
		o.Rows = renderUsers(us)
	case "last":
		var u fam.User
		tx = db.Last(&u)
		o.Rows = renderUsers([]fam.User{u})
	case "update_direct":
		tx = db.Where("id > ?", 0).Update("name", "upd-direct")
	case "pluck":
		var names []string
		tx = db.Model(&fam.User{}).Pluck("name", &names)
		o.Rows = strings.Join(names, ",")
	case "rows":
		rows, err := db.Model(&fam.User{}).Rows()
		tx = db
		if err != nil {
			o.Err = err.Error()
		} else if rows != nil {
			n := 0
			for rows.Next() {
				n++
			}
			rows.Close()
			o.Rows = fmt.Sprint(n)
		}
	case "scan":
		var us []fam.User
		tx = db.Model(&fam.User{}).Scan(&us)
		o.Rows = renderUsers(us)
	case "find_in_batches":
		var us []fam.User
		var all []fam.User
		tx = db.FindInBatches(&us, 2, func(tx *gorm.DB, batch int) error {
			all = append(all, us...)
			if batch > 40 {
				return fmt.Errorf("c06: more than 40 batches") // some chains never terminate in FindInBatches; not this property's business
			}
			return nil
		})
		o.Rows = renderUsers(all)
	case "first_or_init":
		var u fam.User
		tx = db.FirstOrInit(&u)
		o.Rows = renderUsers([]fam.User{u})
	case "update":
		tx = db.Model(&fam.User{}).Where("id > ?", 0).Update("name", "upd")
	case "updates":
		tx = db.Model(&fam.User{ID: 2}).Updates(map[string]interface{}{"name": "upds", "age": 77})
	case "delete":
		tx = db.Where("id > ?", 1000).Delete(&fam.User{})
	case "create":
		tx = db.Create(&fam.User{ID: 9000, Name: "created", Age: 5})
	case "create_slice_direct":
		// five records at once.  In a DryRun history this runs straight on the handle (no
		// session in between, whose Config would be a copy); how the handle batches is
		// visible in the statement the call leaves behind
		us := make([]fam.User, 5)
		for i := range us {
			us[i] = fam.User{ID: uint(9001 + i), Name: fmt.Sprintf("batch%d", i), Age: i}
		}
		tx = db.Create(&us)
	}
	if tx != nil {
		if tx.Error != nil && o.Err == "" {
			o.Err = tx.Error.Error()
		}
		if dry || ch.Dry {
			o.SQL = append(o.SQL, tx.Statement.SQL.String()+" | "+renderVars(tx.Statement.Vars))
		}
	}
	if !dry {
		for _, ev := range e.Drv.Events()[before:] {
			if ev.Task >= 0 && (ev.Kind == "exec" || ev.Kind == "query") {
				o.SQL = append(o.SQL, ev.SQL+" | "+strings.Join(ev.Args, ","))
			}
		}
	}
	return o
}

func firstLine(s string) string {
	if i := strings.IndexByte(s, '\n'); i >= 0 {
		return s[:i]
	}
	return s
}

type ctxKey struct{}

// derive ends a chain in a new reusable handle.
func derive(db *gorm.DB, how string) *gorm.DB {
	switch how {
	case "session":
		return db.Session(&gorm.Session{})
	case "with_context":
		return db.WithContext(context.WithValue(context.Background(), ctxKey{}, "c06"))
	case "debug":
		return db.Debug()
	case "begin":
		return db.Begin()
	case "session_batch":
		return db.Session(&gorm.Session{CreateBatchSize: 2})
	case "session_newdb":
		return db.Session(&gorm.Session{NewDB: true})
	case "session_skiphooks":
		return db.Session(&gorm.Session{SkipHooks: true})
	case "session_newdb_skiphooks":
		return db.Session(&gorm.Session{NewDB: true, SkipHooks: true})
	case "session_newdb_ctx":
		// a sub-session for a request that is already over
		ctx, cancel := context.WithCancel(context.WithValue(context.Background(), ctxKey{}, "c06-sub"))
		cancel()
		return db.Session(&gorm.Session{NewDB: true, Context: ctx})
	case "session_ctx_skiphooks":
		return db.Session(&gorm.Session{Context: context.WithValue(context.Background(), ctxKey{}, "c06-sub2"), SkipHooks: true})
	}
	return db
}

// hookEffects makes the model hooks observable in what chains produce: a created
// user's age and a found user's name carry the hook's mark, so a handle whose
// hooks were switched off behind its back builds other statements and returns
// other rows.
func hookEffects() func() {
	fam.Sink = func(hc fam.HookCall) error {
		if u, ok := hc.Rec.(*fam.User); ok {
			switch hc.Hook {
			case "BeforeCreate":
				u.Age += 1000
			case "AfterFind":
				u.Name = "found:" + u.Name
			}
		}
		return nil
	}
	return func() { fam.Sink = nil }
}

func (c *Case) open() (*env.Env, error) {
	e, err := env.Open(env.Options{PrepareStmt: c.Prepare, FixedClock: true})
	if err != nil {
		return nil, err
	}
	if c.DryRun {
		e.DB = e.DB.Session(&gorm.Session{DryRun: true})
	}
	return e, nil
}

func rollbackAll(hs []*gorm.DB, chains []Chain) {
	for i := len(hs) - 1; i >= 1; i-- {
		if hs[i] != nil && chains[i-1].End == "begin" {
			hs[i].Rollback()
		}
	}
}

// history executes the interleaved history; obs[i] is set for chains that ran a finisher.
func (c *Case) history() (map[int]obs, []string, error) {
	e, err := c.open()
	if err != nil {
		return nil, nil, err
	}
	defer e.Close()
	defer hookEffects()()
	n := len(c.Chains)
	handles := make([]*gorm.DB, n+1)
	handles[0] = e.DB
	cur := make([]*gorm.DB, n)
	pos := make([]int, n)
	done := make([]bool, n)
	out := map[int]obs{}
	var trace []string
	cs := callerSlices{}
	defer func() { rollbackAll(handles, c.Chains) }()
	advance := func(i int) bool {
		ch := c.Chains[i]
		if done[i] || handles[ch.From] == nil {
			return false
		}
		for _, st := range ch.Steps {
			if (st.M == "where_sub" || st.M == "where_group" || st.M == "joins_db") && st.H <= n && st.H > 0 && handles[st.H] == nil && !done[st.H-1] {
				return false // the sub-query handle does not exist yet
			}
		}
		if cur[i] == nil {
			cur[i] = handles[ch.From]
		}
		trace = append(trace, fmt.Sprint(i))
		if pos[i] < len(ch.Steps) {
			cur[i] = apply(cur[i], ch.Steps[pos[i]], handles, cs)
			pos[i]++
			return true
		}
		done[i] = true
		switch {
		case ch.End == "abandon":
		case isDerivation(ch.End):
			handles[i+1] = derive(cur[i], ch.End)
		default:
			out[i] = finish(e, cur[i], ch, c.DryRun)
		}
		return true
	}
	for _, i := range c.Order {
		if i >= 0 && i < n {
			advance(i)
		}
	}
	for progress := true; progress; {
		progress = false
		for i := 0; i < n; i++ {
			for advance(i) {
				progress = true
			}
		}
	}
	return out, trace, nil
}

// isolated replays chain i alone: only its own ancestry, on a fresh Open.
func (c *Case) isolated(i int) (obs, error) {
	e, err := c.open()
	if err != nil {
		return obs{}, err
	}
	defer e.Close()
	defer hookEffects()()
	n := len(c.Chains)
	handles := make([]*gorm.DB, n+1)
	handles[0] = e.DB
	defer func() { rollbackAll(handles, c.Chains) }()
	cs := callerSlices{}
	var build func(h int) *gorm.DB
	run := func(ch Chain) *gorm.DB {
		db := build(ch.From)
		for _, st := range ch.Steps {
			if st.M == "where_sub" || st.M == "where_group" || st.M == "joins_db" {
				build(st.H)
			}
			db = apply(db, st, handles, cs)
		}
		return db
	}
	build = func(h int) *gorm.DB {
		if h < len(handles) && handles[h] != nil {
			return handles[h]
		}
		ch := c.Chains[h-1]
		if !isDerivation(ch.End) {
			return handles[0]
		}
		handles[h] = derive(run(ch), ch.End)
		return handles[h]
	}
	ch := c.Chains[i]
	return finish(e, run(ch), ch, c.DryRun), nil
}

func (p Prop) Run(ci interface{}, focus *core.Violation) *core.Outcome {
	c := ci.(*Case)
	o := &core.Outcome{Runs: 1}
	got, trace, err := c.history()
	if err != nil {
		o.Trouble = err.Error()
		return o
	}
	// interleaving measure: number of switches between chains that share an ancestor handle
	switches := 0
	for i := 1; i < len(trace); i++ {
		if trace[i] != trace[i-1] {
			switches++
		}
	}
	shape, _ := json.Marshal(c.Chains)
	o.TraceHash = core.Hash(strings.Join(trace, ","), string(shape))
	if switches > 0 && len(got) > 0 {
		o.Hashes = []string{o.TraceHash}
	}
	o.Count("finishers_compared", int64(len(got)))
	o.Count("chain_switches", int64(switches))
	if c.DryRun {
		o.Count("histories_dry_run", 1)
	} else {
		o.Count("histories_real", 1)
	}
	o.Sample = map[string]interface{}{"case": c, "step_interleaving": strings.Join(trace, " ")}
	idx := make([]int, 0, len(got))
	for i := range got {
		idx = append(idx, i)
	}
	sort.Ints(idx)
	for _, i := range idx {
		want, err := c.isolated(i)
		if err != nil {
			o.Trouble = err.Error()
			return o
		}
		o.Runs++
		again, err := c.isolated(i)
		if err != nil {
			o.Trouble = err.Error()
			return o
		}
		if want.String() != again.String() {
			o.Count("nondeterministic_single_chain", 1)
			continue // gorm is not deterministic for this chain alone: no verdict
		}
		g := got[i]
		if g.String() == want.String() {
			continue
		}
		what := "rows"
		if strings.Join(g.SQL, "\n") != strings.Join(want.SQL, "\n") {
			what = "sql"
		} else if g.Err != want.Err {
			what = "error"
		}
		var ms []string
		for _, st := range c.Chains[i].Steps {
			ms = append(ms, st.M)
		}
		sort.Strings(ms)
		v := &core.Violation{Class: "chain_interference", Key: fmt.Sprintf("%s|%s|%s", what, c.Chains[i].End, clauseKey(g, want)),
			Detail: fmt.Sprintf("chain %d (from handle %d, methods %v, finisher %s) observed in the history:\n  %s\nreplayed alone from a fresh Open:\n  %s", i, c.Chains[i].From, ms, c.Chains[i].End, g, want)}
		if o.Report(v, focus, o.TraceHash) {
			return o
		}
	}
	return o
}

// clauseKey names the SQL clause in which the two observations first differ.
func clauseKey(a, b obs) string {
	x, y := strings.Join(a.SQL, "\n"), strings.Join(b.SQL, "\n")
	i := 0
	for i < len(x) && i < len(y) && x[i] == y[i] {
		i++
	}
	if i == len(x) && i == len(y) {
		return "same_sql"
	}
	best := ""
	bestAt := -1
	for _, kw := range []string{"SELECT", "FROM", "JOIN", "WHERE", "GROUP BY", "HAVING", "ORDER BY", "LIMIT", "OFFSET", "RETURNING", "ON CONFLICT", "SET", "VALUES", "FOR ", " | "} {
		if at := strings.LastIndex(x[:min(i+1, len(x))], kw); at > bestAt {
			best, bestAt = kw, at
		}
	}
	return strings.TrimSpace(best)
}

func min(a, b int) int {
	if a < b {
		return a
	}
	return b
}

var _ = simdrv.Marker
