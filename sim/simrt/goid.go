// Package simrt holds the tiny runtime helpers shared by the simulator packages.
package simrt

import "runtime"

// Goid returns the id of the calling goroutine (parsed from runtime.Stack; ~1µs).
// It touches only a local buffer, so it is invisible to the race detector.
//
//go:norace
func Goid() int64 {
	var buf [40]byte
	n := runtime.Stack(buf[:], false)
	// "goroutine 123 ["
	var id int64
	for i := 10; i < n; i++ {
		c := buf[i]
		if c < '0' || c > '9' {
			break
		}
		id = id*10 + int64(c-'0')
	}
	return id
}
