// Package fam is the model family the simulated workloads operate on: one model
// per relation kind gorm knows (belongs-to, has-one, has-many, polymorphic,
// many-to-many, self-referential), every model with every hook, all hooks routed
// to a sink the simulator installs.
package fam

import (
	"context"
	"fmt"
	"gorm.io/gorm/schema"
	"reflect"
	"strings"
	"time"

	"gorm.io/gorm"
)

type Company struct {
	ID   uint `gorm:"primarykey"`
	Name string
}

type Account struct {
	ID     uint `gorm:"primarykey"`
	UserID *uint
	Number string
}

type Toy struct {
	ID        uint `gorm:"primarykey"`
	Name      string
	OwnerID   uint
	OwnerType string
}

type Pet struct {
	ID     uint `gorm:"primarykey"`
	UserID *uint
	Name   string
	Toy    *Toy `gorm:"polymorphic:Owner"`
}

type Language struct {
	Code string `gorm:"primarykey"`
	Name string
}

type User struct {
	ID        uint `gorm:"primarykey"`
	CreatedAt time.Time
	UpdatedAt time.Time
	DeletedAt gorm.DeletedAt `gorm:"index"`
	Name      string
	Age       int
	Account   *Account
	Pets      []*Pet
	Toys      []Toy `gorm:"polymorphic:Owner"`
	CompanyID *uint
	Company   *Company
	ManagerID *uint
	Manager   *User
	Team      []User     `gorm:"foreignkey:ManagerID"`
	Languages []Language `gorm:"many2many:user_languages"`
	Friends   []*User    `gorm:"many2many:user_friends"`
	Birthday  *time.Time // a pointer-typed time field (its setter takes time.Time, string and *time.Time values)
}

// Note is unrelated to every other model.
type Note struct {
	ID   uint `gorm:"primarykey"`
	Body string
	Rank int
	Tag  Sealed // a field whose type is its own serializer (schema.SerializerInterface)
}

// Sealed stores its text reversed; Scan writes into the receiver, the way the
// EncryptedString example of gorm's own tests does.
type Sealed string

func (s *Sealed) Scan(ctx context.Context, field *schema.Field, dst reflect.Value, dbValue interface{}) error {
	switch v := dbValue.(type) {
	case nil:
		*s = ""
	case []byte:
		*s = Sealed(reverse(string(v)))
	case string:
		*s = Sealed(reverse(v))
	default:
		return fmt.Errorf("fam.Sealed: unsupported value %T", dbValue)
	}
	return nil
}

func (s Sealed) Value(ctx context.Context, field *schema.Field, dst reflect.Value, fieldValue interface{}) (interface{}, error) {
	return reverse(string(s)), nil
}

func reverse(x string) string {
	b := []byte(x)
	for i, j := 0, len(b)-1; i < j; i, j = i+1, j-1 {
		b[i], b[j] = b[j], b[i]
	}
	return string(b)
}

// Gadget has database-side defaults on two columns (they are inserted only when
// the struct carries a non-zero value, and read back through RETURNING otherwise).
type Gadget struct {
	ID    uint `gorm:"primarykey"`
	Name  string
	Score int `gorm:"default:(7)"`
	Level int `gorm:"default:(3)"`
}

// KV is the two-column key-value table of the transaction workloads.
type KV struct {
	K string `gorm:"primarykey"`
	V string
}

// KVPanic, when set, is what KV's BeforeCreate hook panics with for a row whose
// value is "panic!" (a panic inside an operation's callback chain, not in the
// caller's own code).
var KVPanic interface{}

func (m *KV) BeforeCreate(tx *gorm.DB) error {
	if m.V == "panic!" && KVPanic != nil {
		panic(KVPanic)
	}
	return nil
}

// Marker rows are written by hooks through the *gorm.DB they are given.
type Marker struct {
	ID   uint `gorm:"primarykey"`
	Text string
}

// Keeper is soft-deletable and has a relation of its own; Thing belongs to a
// Keeper.  No hooks.  (The shared-handle check joins Things with their Keeper
// while another goroutine makes first use of Keeper.)
type Keeper struct {
	ID        uint `gorm:"primarykey"`
	Name      string
	DeletedAt gorm.DeletedAt `gorm:"index"`
	Things    []Thing
}

type Thing struct {
	ID       uint `gorm:"primarykey"`
	Name     string
	KeeperID *uint
	Keeper   *Keeper
}

// Memo has two hooks (BeforeSave, AfterSave), declared on the value receiver (gorm offers the struct
// value to the hook interfaces before the pointer).
type Memo struct {
	ID   uint `gorm:"primarykey"`
	Text string
}

func (m Memo) BeforeSave(tx *gorm.DB) error { return call("BeforeSave", "Memo", &m, tx) }
func (m Memo) AfterSave(tx *gorm.DB) error  { return call("AfterSave", "Memo", &m, tx) }

// AllModels lists every model (migration order).
// Club has many Users through their manager column and is reachable from no other
// model (and in no fixture, no warm-up list): its first use, always on a cold cache,
// writes a back-reference into User's already published schema.  Only ever used in
// dry-run statements (there is no clubs table).
type Club struct {
	ID      uint
	Name    string
	Members []User `gorm:"foreignKey:ManagerID"`
}

func AllModels() []interface{} {
	return []interface{}{&Company{}, &Language{}, &User{}, &Account{}, &Pet{}, &Toy{}, &Note{}, &KV{}, &Marker{}, &Gadget{}, &Keeper{}, &Thing{}, &Memo{}}
}

// Tables lists every table, join tables included (dump order).
var Tables = []string{"companies", "languages", "users", "accounts", "pets", "toys", "user_languages", "user_friends", "notes", "kvs", "markers", "gadgets", "keepers", "things", "memos"}

// ---------------------------------------------------------------- hooks

// HookCall is what a model hook reports to the sink.
type HookCall struct {
	Hook  string
	Model string
	Rec   interface{} // pointer to the in-memory record the hook was invoked on
	Tx    *gorm.DB
}

// Sink receives every hook invocation; its error is the hook's return value.
// It is installed by the simulator before a run and is nil otherwise.  (One
// simulated run at a time per process; tasks of a run are told apart by the
// scheduler, not here.)
var Sink func(HookCall) error

func call(hook, model string, rec interface{}, tx *gorm.DB) error {
	if Sink == nil {
		return nil
	}
	return Sink(HookCall{hook, model, rec, tx})
}

// NoHook lists the hooks a model does NOT define.  The subsets are chosen so that for
// every ordered pair of hook kinds (H, H') some model defines H but not H' (a hook of
// one kind is never implied by, nor detected through, another kind), and so that in
// every callback guard of the form (X || Y) each side stands alone for some model.
// User and Note define all of them.
var NoHook = map[string]map[string]bool{
	"Toy":      {"BeforeSave": true, "AfterCreate": true, "AfterSave": true},
	"Language": {"BeforeCreate": true, "AfterCreate": true, "BeforeUpdate": true, "AfterDelete": true},
	"Account":  {"BeforeUpdate": true, "AfterUpdate": true, "AfterSave": true, "BeforeDelete": true},
	"Company":  {"BeforeSave": true, "BeforeCreate": true, "AfterUpdate": true, "AfterFind": true},
	"Pet":      {"BeforeDelete": true, "AfterDelete": true, "AfterFind": true},
	"Memo":     {"BeforeCreate": true, "AfterCreate": true, "BeforeUpdate": true, "AfterUpdate": true, "BeforeDelete": true, "AfterDelete": true, "AfterFind": true},
}

// HookPattern removes from a comma separated hook sequence the hooks model does not define.
func HookPattern(model, pattern string) string {
	var out []string
	for _, h := range strings.Split(pattern, ",") {
		if !NoHook[model][h] {
			out = append(out, h)
		}
	}
	return strings.Join(out, ",")
}

func (m *User) BeforeSave(tx *gorm.DB) error   { return call("BeforeSave", "User", m, tx) }
func (m *User) BeforeCreate(tx *gorm.DB) error { return call("BeforeCreate", "User", m, tx) }
func (m *User) AfterCreate(tx *gorm.DB) error  { return call("AfterCreate", "User", m, tx) }
func (m *User) BeforeUpdate(tx *gorm.DB) error { return call("BeforeUpdate", "User", m, tx) }
func (m *User) AfterUpdate(tx *gorm.DB) error  { return call("AfterUpdate", "User", m, tx) }
func (m *User) AfterSave(tx *gorm.DB) error    { return call("AfterSave", "User", m, tx) }
func (m *User) BeforeDelete(tx *gorm.DB) error { return call("BeforeDelete", "User", m, tx) }
func (m *User) AfterDelete(tx *gorm.DB) error  { return call("AfterDelete", "User", m, tx) }
func (m *User) AfterFind(tx *gorm.DB) error    { return call("AfterFind", "User", m, tx) }

func (m *Toy) BeforeCreate(tx *gorm.DB) error { return call("BeforeCreate", "Toy", m, tx) }
func (m *Toy) BeforeUpdate(tx *gorm.DB) error { return call("BeforeUpdate", "Toy", m, tx) }
func (m *Toy) AfterUpdate(tx *gorm.DB) error  { return call("AfterUpdate", "Toy", m, tx) }
func (m *Toy) BeforeDelete(tx *gorm.DB) error { return call("BeforeDelete", "Toy", m, tx) }
func (m *Toy) AfterDelete(tx *gorm.DB) error  { return call("AfterDelete", "Toy", m, tx) }
func (m *Toy) AfterFind(tx *gorm.DB) error    { return call("AfterFind", "Toy", m, tx) }

func (m *Language) BeforeSave(tx *gorm.DB) error   { return call("BeforeSave", "Language", m, tx) }
func (m *Language) AfterUpdate(tx *gorm.DB) error  { return call("AfterUpdate", "Language", m, tx) }
func (m *Language) AfterSave(tx *gorm.DB) error    { return call("AfterSave", "Language", m, tx) }
func (m *Language) BeforeDelete(tx *gorm.DB) error { return call("BeforeDelete", "Language", m, tx) }
func (m *Language) AfterFind(tx *gorm.DB) error    { return call("AfterFind", "Language", m, tx) }

func (m *Account) BeforeSave(tx *gorm.DB) error   { return call("BeforeSave", "Account", m, tx) }
func (m *Account) BeforeCreate(tx *gorm.DB) error { return call("BeforeCreate", "Account", m, tx) }
func (m *Account) AfterCreate(tx *gorm.DB) error  { return call("AfterCreate", "Account", m, tx) }
func (m *Account) AfterDelete(tx *gorm.DB) error  { return call("AfterDelete", "Account", m, tx) }
func (m *Account) AfterFind(tx *gorm.DB) error    { return call("AfterFind", "Account", m, tx) }

func (m *Company) AfterCreate(tx *gorm.DB) error  { return call("AfterCreate", "Company", m, tx) }
func (m *Company) BeforeUpdate(tx *gorm.DB) error { return call("BeforeUpdate", "Company", m, tx) }
func (m *Company) AfterSave(tx *gorm.DB) error    { return call("AfterSave", "Company", m, tx) }
func (m *Company) BeforeDelete(tx *gorm.DB) error { return call("BeforeDelete", "Company", m, tx) }
func (m *Company) AfterDelete(tx *gorm.DB) error  { return call("AfterDelete", "Company", m, tx) }

func (m *Pet) BeforeSave(tx *gorm.DB) error   { return call("BeforeSave", "Pet", m, tx) }
func (m *Pet) BeforeCreate(tx *gorm.DB) error { return call("BeforeCreate", "Pet", m, tx) }
func (m *Pet) AfterCreate(tx *gorm.DB) error  { return call("AfterCreate", "Pet", m, tx) }
func (m *Pet) BeforeUpdate(tx *gorm.DB) error { return call("BeforeUpdate", "Pet", m, tx) }
func (m *Pet) AfterUpdate(tx *gorm.DB) error  { return call("AfterUpdate", "Pet", m, tx) }
func (m *Pet) AfterSave(tx *gorm.DB) error    { return call("AfterSave", "Pet", m, tx) }

func (m *Note) BeforeSave(tx *gorm.DB) error   { return call("BeforeSave", "Note", m, tx) }
func (m *Note) BeforeCreate(tx *gorm.DB) error { return call("BeforeCreate", "Note", m, tx) }
func (m *Note) AfterCreate(tx *gorm.DB) error  { return call("AfterCreate", "Note", m, tx) }
func (m *Note) BeforeUpdate(tx *gorm.DB) error { return call("BeforeUpdate", "Note", m, tx) }
func (m *Note) AfterUpdate(tx *gorm.DB) error  { return call("AfterUpdate", "Note", m, tx) }
func (m *Note) AfterSave(tx *gorm.DB) error    { return call("AfterSave", "Note", m, tx) }
func (m *Note) BeforeDelete(tx *gorm.DB) error { return call("BeforeDelete", "Note", m, tx) }
func (m *Note) AfterDelete(tx *gorm.DB) error  { return call("AfterDelete", "Note", m, tx) }
func (m *Note) AfterFind(tx *gorm.DB) error    { return call("AfterFind", "Note", m, tx) }
