package fam

import "fmt"

// Node is one in-memory record reachable from a root.
type Node struct {
	Model string
	Ptr   interface{}
	PK    string // "" when the key is zero
	Root  bool
	Anc   []string // "Model/PK" of the non-zero-keyed records on the path from the root (self included)
}

// TableOf maps model names to table names.
var TableOf = map[string]string{"User": "users", "Company": "companies", "Account": "accounts", "Pet": "pets", "Toy": "toys", "Language": "languages", "Note": "notes", "Memo": "memos"}

func pk(v uint) string {
	if v == 0 {
		return ""
	}
	return fmt.Sprint(v)
}

// Walk lists every record reachable from u (u itself first), with the address
// gorm's hooks would be invoked on.
func Walk(u *User, root bool, out *[]Node) { walk(u, root, nil, out, nil) }

func anc(a []string, model, k string) []string {
	if k == "" {
		return a
	}
	return append(append([]string{}, a...), model+"/"+k)
}

func walk(u *User, root bool, a []string, out *[]Node, path []*User) {
	if u == nil {
		return
	}
	for _, p := range path {
		if p == u {
			return // a reference back to a record on the path: already listed
		}
	}
	path = append(path, u)
	a = anc(a, "User", pk(u.ID))
	add := func(model string, ptr interface{}, k string) []string {
		na := anc(a, model, k)
		*out = append(*out, Node{model, ptr, k, false, na})
		return na
	}
	*out = append(*out, Node{"User", u, pk(u.ID), root, a})
	if u.Company != nil {
		add("Company", u.Company, pk(u.Company.ID))
	}
	walk(u.Manager, false, a, out, path)
	if u.Account != nil {
		add("Account", u.Account, pk(u.Account.ID))
	}
	for _, p := range u.Pets {
		if p == nil {
			continue
		}
		pa := add("Pet", p, pk(p.ID))
		if p.Toy != nil {
			*out = append(*out, Node{"Toy", p.Toy, pk(p.Toy.ID), false, anc(pa, "Toy", pk(p.Toy.ID))})
		}
	}
	for i := range u.Toys {
		add("Toy", &u.Toys[i], pk(u.Toys[i].ID))
	}
	for i := range u.Team {
		walk(&u.Team[i], false, a, out, path)
	}
	for i := range u.Languages {
		add("Language", &u.Languages[i], u.Languages[i].Code)
	}
	for _, f := range u.Friends {
		walk(f, false, a, out, path)
	}
}
