package fam

import (
	"database/sql"
	"fmt"
	"sort"
	"strings"
)

// Fixture sizes: keys 1..N of each table exist before every run.
const (
	FixCompanies = 3
	FixUsers     = 4
	FixAccounts  = 3
	FixPets      = 4
	FixToys      = 4
)

var FixLangCodes = []string{"en", "fr", "zh"}

// FixtureSQL populates the database (D0).  Timestamps are fixed strings.
var FixtureSQL = []string{
	`INSERT INTO companies(id,name) VALUES (1,'c1'),(2,'c2'),(3,'c3')`,
	`INSERT INTO languages(code,name) VALUES ('en','English'),('fr','French'),('zh','Chinese')`,
	`INSERT INTO users(id,created_at,updated_at,deleted_at,name,age,company_id,manager_id) VALUES
	 (1,'2020-01-01 00:00:00+00:00','2020-01-01 00:00:00+00:00',NULL,'fu1',31,1,NULL),
	 (2,'2020-01-01 00:00:00+00:00','2020-01-01 00:00:00+00:00',NULL,'fu2',32,1,1),
	 (3,'2020-01-01 00:00:00+00:00','2020-01-01 00:00:00+00:00',NULL,'fu3',33,2,1),
	 (4,'2020-01-01 00:00:00+00:00','2020-01-01 00:00:00+00:00','2020-02-01 00:00:00+00:00','fu4',34,NULL,NULL)`,
	`INSERT INTO accounts(id,user_id,number) VALUES (1,1,'a1'),(2,2,'a2'),(3,NULL,'a3')`,
	`INSERT INTO pets(id,user_id,name) VALUES (1,1,'p1'),(2,1,'p2'),(3,2,'p3'),(4,NULL,'p4')`,
	`INSERT INTO toys(id,name,owner_id,owner_type) VALUES (1,'t1',1,'users'),(2,'t2',1,'pets'),(3,'t3',2,'users'),(4,'t4',3,'pets')`,
	`INSERT INTO user_languages(user_id,language_code) VALUES (1,'en'),(1,'fr'),(2,'en')`,
	`INSERT INTO user_friends(user_id,friend_id) VALUES (1,2),(2,1),(1,3)`,
	`INSERT INTO notes(id,body,rank) VALUES (1,'n1',1),(2,'n2',2),(3,'n3',3)`,
	`INSERT INTO kvs(k,v) VALUES ('base','0')`,
}

// Dump renders every row of every table, ordered, as text.
func Dump(db *sql.DB) (string, error) {
	var b strings.Builder
	for _, t := range Tables {
		rows, err := db.Query("SELECT * FROM " + t)
		if err != nil {
			return "", fmt.Errorf("dump %s: %w", t, err)
		}
		cols, _ := rows.Columns()
		fmt.Fprintf(&b, "## %s (%s)\n", t, strings.Join(cols, ","))
		var lines []string
		for rows.Next() {
			var b strings.Builder
			vals := make([]interface{}, len(cols))
			ptrs := make([]interface{}, len(cols))
			for i := range vals {
				ptrs[i] = &vals[i]
			}
			if err := rows.Scan(ptrs...); err != nil {
				rows.Close()
				return "", err
			}
			for i, v := range vals {
				if i > 0 {
					b.WriteByte('|')
				}
				switch x := v.(type) {
				case nil:
					b.WriteString("NULL")
				case []byte:
					b.WriteString(string(x))
				default:
					fmt.Fprintf(&b, "%v", x)
				}
			}
			lines = append(lines, b.String())
		}
		sort.Strings(lines)
		for _, l := range lines {
			b.WriteString(l)
			b.WriteByte('\n')
		}
		if err := rows.Err(); err != nil {
			rows.Close()
			return "", fmt.Errorf("dump %s: %w", t, err)
		}
		rows.Close()
	}
	return b.String(), nil
}
