package fam

import (
	"fmt"
	"strings"

	"verif/sim/core"
)

// Specs are the serialisable descriptions of in-memory record graphs; Build*
// turns them into fresh values for every run.

type CompanySpec struct {
	ID   uint   `json:"id,omitempty"`
	Name string `json:"name"`
}
type AccountSpec struct {
	ID     uint   `json:"id,omitempty"`
	Number string `json:"number"`
}
type ToySpec struct {
	ID   uint   `json:"id,omitempty"`
	Name string `json:"name"`
}
type PetSpec struct {
	ID   uint     `json:"id,omitempty"`
	Name string   `json:"name"`
	Toy  *ToySpec `json:"toy,omitempty"`
}
type LangSpec struct {
	Code string `json:"code"`
	Name string `json:"name"`
}
type UserSpec struct {
	ID        uint         `json:"id,omitempty"`
	Name      string       `json:"name"`
	Age       int          `json:"age,omitempty"`
	Company   *CompanySpec `json:"company,omitempty"`
	Manager   *UserSpec    `json:"manager,omitempty"`
	Account   *AccountSpec `json:"account,omitempty"`
	Pets      []PetSpec    `json:"pets,omitempty"`
	Toys      []ToySpec    `json:"toys,omitempty"`
	Team      []UserSpec   `json:"team,omitempty"`
	Languages []LangSpec   `json:"languages,omitempty"`
	Friends   []UserSpec   `json:"friends,omitempty"`
	// BackRef: as a team member this record's Manager, as a friend its Friends,
	// point back at the parent record (a cycle through the parent)
	BackRef bool `json:"back_ref,omitempty"`
	// ShareCo: as a team member or friend of the operation's only argument record, this
	// record's Company is the parent's Company - the same in-memory record (`c :=
	// &Company{…}; u := User{Company: c, Friends: []*User{{Company: c}}}`).  Only when no
	// other record of the same save batch has a company (gorm skips a batch of association
	// records only when every one of them was visited before; the children of all parents
	// of one level are one batch): the parent's own pipeline saves the record and marks
	// it visited for the child's.
	ShareCo bool `json:"share_company,omitempty"`
}

func (s *CompanySpec) Build() *Company {
	if s == nil {
		return nil
	}
	return &Company{ID: s.ID, Name: s.Name}
}
func (s *AccountSpec) Build() *Account {
	if s == nil {
		return nil
	}
	return &Account{ID: s.ID, Number: s.Number}
}
func (s ToySpec) Build() Toy { return Toy{ID: s.ID, Name: s.Name} }
func (s PetSpec) Build() *Pet {
	p := &Pet{ID: s.ID, Name: s.Name}
	if s.Toy != nil {
		t := s.Toy.Build()
		p.Toy = &t
	}
	return p
}
func (s LangSpec) Build() Language { return Language{Code: s.Code, Name: s.Name} }

// Shared lets records with the same non-zero key be one in-memory record
// referenced from several parents (the usual `c := &Company{…}; users := []User{{Company: c}, {Company: c}}`).
// Only the argument records themselves share (their Company and their Friends):
// gorm de-duplicates the records of one relation of one save batch by key; a
// record that is also reachable through a nested association is upserted again
// by that association's own pipeline, with its own hook cycle.
type Shared struct {
	Companies map[uint]*Company
	Friends   map[uint]*User
	// new (zero-key) records shared by name: `c := &Company{Name: "x"}` referenced by several parents
	NewCompanies map[string]*Company
	NewFriends   map[string]*User
}

// SharedNewPrefix marks, by name, new records that several parents share.
const SharedNewPrefix = "shared-new-"

func NewShared() *Shared {
	return &Shared{Companies: map[uint]*Company{}, Friends: map[uint]*User{}, NewCompanies: map[string]*Company{}, NewFriends: map[string]*User{}}
}

func (s *UserSpec) Build() *User { return s.BuildShared(nil) }

// BuildShared builds an argument record (ShareCo of its direct children applies).
func (s *UserSpec) BuildShared(sh *Shared) *User { return s.build(sh, true) }

// BuildPlain builds an argument record of an operation with several argument records:
// the children of all of them are saved in one batch, so ShareCo does not apply.
func (s *UserSpec) BuildPlain(sh *Shared) *User { return s.build(sh, false) }

func (s *UserSpec) build(sh *Shared, top bool) *User {
	if s == nil {
		return nil
	}
	u := &User{ID: s.ID, Name: s.Name, Age: s.Age}
	u.Company = s.Company.Build()
	if sh != nil && u.Company != nil && u.Company.ID != 0 {
		if c, ok := sh.Companies[u.Company.ID]; ok {
			u.Company = c
		} else {
			sh.Companies[u.Company.ID] = u.Company
		}
	} else if sh != nil && u.Company != nil && strings.HasPrefix(u.Company.Name, SharedNewPrefix) {
		if c, ok := sh.NewCompanies[u.Company.Name]; ok {
			u.Company = c
		} else {
			sh.NewCompanies[u.Company.Name] = u.Company
		}
	}
	u.Manager = s.Manager.build(nil, false)
	u.Account = s.Account.Build()
	for _, p := range s.Pets {
		u.Pets = append(u.Pets, p.Build())
	}
	for _, t := range s.Toys {
		u.Toys = append(u.Toys, t.Build())
	}
	for i := range s.Team {
		u.Team = append(u.Team, *s.Team[i].build(nil, false))
	}
	for i := range s.Team {
		if s.Team[i].BackRef {
			u.Team[i].Manager = u
		}
		if top && s.Team[i].ShareCo && u.Company != nil && onlyCompany(s.Team, i) {
			u.Team[i].Company = u.Company
		}
	}
	for _, l := range s.Languages {
		u.Languages = append(u.Languages, l.Build())
	}
	for i := range s.Friends {
		f := s.Friends[i].build(nil, false)
		if sh != nil && f.ID != 0 {
			if g, ok := sh.Friends[f.ID]; ok {
				f = g
			} else {
				sh.Friends[f.ID] = f
			}
		} else if sh != nil && strings.HasPrefix(f.Name, SharedNewPrefix) {
			if g, ok := sh.NewFriends[f.Name]; ok {
				f = g
			} else {
				sh.NewFriends[f.Name] = f
			}
		}
		if s.Friends[i].BackRef {
			f.Friends = append(f.Friends, u)
		}
		if top && s.Friends[i].ShareCo && u.Company != nil && f.ID == 0 && !strings.HasPrefix(f.Name, SharedNewPrefix) && onlyCompany(s.Friends, i) {
			f.Company = u.Company
		}
		u.Friends = append(u.Friends, f)
	}
	return u
}

// onlyCompany: no sibling of siblings[i] has a company.  (gorm skips an association
// batch only when every record of it was visited before: a shared record saved
// next to an unvisited sibling's is saved again with it.)
func onlyCompany(siblings []UserSpec, i int) bool {
	for j := range siblings {
		if j != i && (siblings[j].Company != nil || siblings[j].ShareCo) {
			return false
		}
	}
	return true
}

// Size counts the records in a spec graph.
func (s *UserSpec) Size() int {
	if s == nil {
		return 0
	}
	n := 1
	if s.Company != nil {
		n++
	}
	n += s.Manager.Size()
	if s.Account != nil {
		n++
	}
	for _, p := range s.Pets {
		n++
		if p.Toy != nil {
			n++
		}
	}
	n += len(s.Toys) + len(s.Languages)
	for i := range s.Team {
		n += s.Team[i].Size()
	}
	for i := range s.Friends {
		n += s.Friends[i].Size()
	}
	return n
}

// ---------------------------------------------------------------- generation

// Gen draws record graphs.  Identifiers: 0 = let the database assign; an id
// below 100 names a fixture row (the write collides with / upserts it); ids
// from 2000 upward (step 1000) are fresh explicit keys handed out by the generator.
type Gen struct {
	R     *core.Rand
	next  uint
	label int
}

func NewGen(r *core.Rand) *Gen { return &Gen{R: r, next: 1000} }

func (g *Gen) name(p string) string { g.label++; return fmt.Sprintf("%s%d", p, g.label) }

// id picks a key: auto (0), fresh explicit, or an existing fixture key in [1,max].
func (g *Gen) id(max int) uint {
	switch x := g.R.Intn(10); {
	case x < 5:
		return 0
	case x < 8:
		g.next += 1000 // sparse: keys the database assigns after an explicit one never reach the next explicit one
		return g.next
	default:
		return uint(1 + g.R.Intn(max))
	}
}

func (g *Gen) Company() *CompanySpec {
	return &CompanySpec{ID: g.id(FixCompanies), Name: g.name("co")}
}
func (g *Gen) Account() *AccountSpec {
	return &AccountSpec{ID: g.id(FixAccounts), Number: g.name("acc")}
}
func (g *Gen) Toy() ToySpec { return ToySpec{ID: g.id(FixToys), Name: g.name("toy")} }
func (g *Gen) Pet() PetSpec {
	p := PetSpec{ID: g.id(FixPets), Name: g.name("pet")}
	if g.R.Chance(40) {
		t := g.Toy()
		p.Toy = &t
	}
	return p
}
func (g *Gen) Lang() LangSpec {
	if g.R.Chance(50) {
		return LangSpec{Code: g.R.Pick(FixLangCodes), Name: g.name("lang")}
	}
	return LangSpec{Code: g.name("l"), Name: g.name("lang")}
}

// User draws a user graph of at most the given depth.
func (g *Gen) User(depth int) UserSpec {
	u := UserSpec{ID: g.id(FixUsers), Name: g.name("u"), Age: g.R.Intn(90)}
	if g.R.Chance(45) {
		u.Company = g.Company()
	}
	if g.R.Chance(35) {
		u.Account = g.Account()
	}
	for i, n := 0, g.small(); i < n; i++ {
		u.Pets = append(u.Pets, g.Pet())
	}
	for i, n := 0, g.small(); i < n; i++ {
		u.Toys = append(u.Toys, g.Toy())
	}
	for i, n := 0, g.small(); i < n; i++ {
		u.Languages = append(u.Languages, g.Lang())
	}
	if depth > 0 {
		if g.R.Chance(25) {
			m := g.User(depth - 1)
			u.Manager = &m
		}
		sharedDown := false
		for i, n := 0, g.small(); i < n; i++ {
			t := g.User(depth - 1)
			if t.Manager == nil && g.R.Chance(20) {
				t.BackRef = true
			}
			if u.Company != nil && !sharedDown && g.R.Chance(20) {
				t.ShareCo, t.Company, sharedDown = true, nil, true
			}
			u.Team = append(u.Team, t)
		}
		for i, n := 0, g.small(); i < n; i++ {
			f := g.User(depth - 1)
			f.BackRef = g.R.Chance(20)
			if u.Company != nil && !sharedDown && f.ID == 0 && g.R.Chance(20) {
				f.ShareCo, f.Company, sharedDown = true, nil, true
			}
			u.Friends = append(u.Friends, f)
		}
	}
	return u
}

// small draws 0 (most often), 1 or 2.
func (g *Gen) small() int {
	switch x := g.R.Intn(10); {
	case x < 6:
		return 0
	case x < 9:
		return 1
	default:
		return 2
	}
}

// ShrinkUser proposes smaller variants of a user spec (one association dropped,
// one list shortened, keys made automatic).
func ShrinkUser(u UserSpec) []UserSpec {
	var out []UserSpec
	add := func(f func(v *UserSpec)) {
		v := u
		f(&v)
		out = append(out, v)
	}
	if u.Company != nil {
		add(func(v *UserSpec) { v.Company = nil })
	}
	if u.Manager != nil {
		add(func(v *UserSpec) { v.Manager = nil })
		for _, m := range ShrinkUser(*u.Manager) {
			m := m
			add(func(v *UserSpec) { v.Manager = &m })
		}
	}
	if u.Account != nil {
		add(func(v *UserSpec) { v.Account = nil })
	}
	for i := range u.Pets {
		i := i
		add(func(v *UserSpec) { v.Pets = append(append([]PetSpec{}, u.Pets[:i]...), u.Pets[i+1:]...) })
		if u.Pets[i].Toy != nil {
			add(func(v *UserSpec) {
				v.Pets = append([]PetSpec{}, u.Pets...)
				v.Pets[i].Toy = nil
			})
		}
	}
	for i := range u.Toys {
		i := i
		add(func(v *UserSpec) { v.Toys = append(append([]ToySpec{}, u.Toys[:i]...), u.Toys[i+1:]...) })
	}
	for i := range u.Languages {
		i := i
		add(func(v *UserSpec) {
			v.Languages = append(append([]LangSpec{}, u.Languages[:i]...), u.Languages[i+1:]...)
		})
	}
	for i := range u.Team {
		i := i
		add(func(v *UserSpec) { v.Team = append(append([]UserSpec{}, u.Team[:i]...), u.Team[i+1:]...) })
		for _, m := range ShrinkUser(u.Team[i]) {
			m := m
			add(func(v *UserSpec) {
				v.Team = append([]UserSpec{}, u.Team...)
				v.Team[i] = m
			})
		}
	}
	for i := range u.Friends {
		i := i
		add(func(v *UserSpec) { v.Friends = append(append([]UserSpec{}, u.Friends[:i]...), u.Friends[i+1:]...) })
		for _, m := range ShrinkUser(u.Friends[i]) {
			m := m
			add(func(v *UserSpec) {
				v.Friends = append([]UserSpec{}, u.Friends...)
				v.Friends[i] = m
			})
		}
	}
	if u.ID != 0 {
		add(func(v *UserSpec) { v.ID = 0 })
	}
	return out
}

// Repoint makes the back references held by moved's team members and friends
// (see UserSpec.BackRef) point at moved instead of at orig, the record it was
// copied from (value slices hold copies of the built records).
func Repoint(orig, moved *User) {
	for i := range moved.Team {
		if moved.Team[i].Manager == orig {
			moved.Team[i].Manager = moved
		}
	}
	for _, f := range moved.Friends {
		if f == nil {
			continue
		}
		for j := range f.Friends {
			if f.Friends[j] == orig {
				f.Friends[j] = moved
			}
		}
	}
}
