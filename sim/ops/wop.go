// Package ops defines the serialisable single operations the single-task checks
// (C05, C13, C18) run against the model family, and how to execute them.
package ops

import (
	"context"
	"fmt"
	"strings"

	"gorm.io/gorm"
	"gorm.io/gorm/clause"

	"verif/sim/core"
	"verif/sim/fam"
)

// WOp is one write operation.
type WOp struct {
	Kind       string         `json:"kind"`
	Users      []fam.UserSpec `json:"users,omitempty"`
	BatchSize  int            `json:"batch_size,omitempty"`
	FullSave   bool           `json:"full_save,omitempty"`
	SkipHooks  bool           `json:"skip_hooks,omitempty"`
	Select     []string       `json:"select,omitempty"`
	Target     uint           `json:"target,omitempty"`
	Unscoped   bool           `json:"unscoped,omitempty"`
	SessBatch  int            `json:"session_batch_size,omitempty"` // create_slice / create_ptr_slice: Session{CreateBatchSize} routes Create through CreateInBatches
	Returning  bool           `json:"returning_all,omitempty"`      // create kinds: Clauses(clause.Returning{}), i.e. RETURNING *
	ScopeSess  bool           `json:"scope_session,omitempty"`      // the operation carries a scope that returns a WithContext handle
	RootFriend bool           `json:"root_friend,omitempty"`        // create_ptr_slice: the second argument record is also a friend of the first (`users := []*User{a, b}; a.Friends = []*User{b}`)
	Share      bool           `json:"share,omitempty"`              // records with the same non-zero key are one in-memory record shared by several parents
	Str        string         `json:"str,omitempty"`
	Int        int            `json:"int,omitempty"`
}

var WriteKinds = []string{
	"create", "create_slice", "create_ptr_slice", "create_batches", "create_map", "create_lang", "create_langs", "update_lang", "create_memo", "save_memo", "update_memo", "create_toy", "update_toy", "create_account", "update_account", "delete_toy", "delete_account", "delete_lang", "update_company", "delete_company", "update_pet",
	"save", "save_slice",
	"update", "updates_struct", "updates_ptr", "updates_map", "updates_assoc", "updates_self", "update_column", "update_columns",
	"delete", "delete_pet", "delete_select", "delete_where", "delete_slice",
}

// Result is what the caller of an operation observes.
type Result struct {
	Err          error
	RowsAffected int64
	// Roots are the in-memory records handed to gorm (pointers), in argument order.
	Roots []*fam.User
	Value interface{}
}

type scopeKey struct{}

// session applies the op's session switches.
func (op *WOp) session(db *gorm.DB) *gorm.DB {
	if op.ScopeSess {
		db = db.Scopes(func(d *gorm.DB) *gorm.DB {
			return d.WithContext(context.WithValue(d.Statement.Context, scopeKey{}, "scoped"))
		})
	}
	if op.SessBatch > 0 {
		db = db.Session(&gorm.Session{CreateBatchSize: op.SessBatch})
	}
	if op.Returning && strings.HasPrefix(op.Kind, "create") {
		db = db.Clauses(clause.Returning{})
	}
	if op.FullSave || op.SkipHooks {
		return db.Session(&gorm.Session{FullSaveAssociations: op.FullSave, SkipHooks: op.SkipHooks})
	}
	return db
}

// Exec runs the operation on db with freshly built in-memory values.
func (op *WOp) Exec(db *gorm.DB) (res Result) {
	db = op.session(db)
	build := func() []*fam.User {
		out := make([]*fam.User, len(op.Users))
		var sh *fam.Shared
		if op.Share {
			sh = fam.NewShared()
		}
		for i := range op.Users {
			if len(op.Users) > 1 {
				out[i] = op.Users[i].BuildPlain(sh)
			} else {
				out[i] = op.Users[i].BuildShared(sh)
			}
		}
		return out
	}
	done := func(tx *gorm.DB) Result {
		res.Err, res.RowsAffected = tx.Error, tx.RowsAffected
		return res
	}
	switch op.Kind {
	case "create":
		us := build()
		res.Roots, res.Value = us, us[0]
		return done(db.Create(us[0]))
	case "create_slice", "create_batches", "save_slice":
		us := build()
		vals := make([]fam.User, len(us))
		for i, u := range us {
			vals[i] = *u
			fam.Repoint(u, &vals[i])
		}
		for i := range vals {
			res.Roots = append(res.Roots, &vals[i])
		}
		res.Value = &vals
		switch op.Kind {
		case "create_slice":
			return done(db.Create(&vals))
		case "create_batches":
			return done(db.CreateInBatches(&vals, op.BatchSize))
		default:
			return done(db.Save(&vals))
		}
	case "create_ptr_slice":
		us := build()
		if op.RootFriend && len(us) >= 2 {
			// the only friend of any argument record (the friends of all of them are saved
			// as one batch, which gorm skips only if every record of it was visited before)
			for _, u := range us {
				u.Friends = nil
			}
			us[0].Friends = []*fam.User{us[1]}
		}
		res.Roots, res.Value = us, &us
		return done(db.Create(&us))
	case "create_map":
		return done(db.Model(&fam.User{}).Create(map[string]interface{}{"Name": op.Str, "Age": op.Int}))
	case "create_toy":
		return done(db.Create(&fam.Toy{Name: op.Str}))
	case "update_toy":
		return done(db.Model(&fam.Toy{ID: 1}).Update("name", op.Str))
	case "delete_lang":
		return done(db.Delete(&fam.Language{Code: "zh"}))
	case "update_company":
		return done(db.Model(&fam.Company{ID: 1}).Update("name", op.Str))
	case "delete_company":
		return done(db.Delete(&fam.Company{ID: 3}))
	case "update_pet":
		return done(db.Model(&fam.Pet{ID: 4}).Update("name", op.Str))
	case "delete_toy":
		return done(db.Delete(&fam.Toy{ID: 1}))
	case "delete_account":
		return done(db.Delete(&fam.Account{ID: 1}))
	case "create_account":
		return done(db.Create(&fam.Account{Number: op.Str}))
	case "update_account":
		return done(db.Model(&fam.Account{ID: 1}).Update("number", op.Str))
	case "create_memo":
		// a model whose only hook has a value receiver
		return done(db.Create(&fam.Memo{Text: op.Str}))
	case "update_memo":
		return done(db.Model(&fam.Memo{ID: 1}).Update("text", op.Str))
	case "save_memo":
		return done(db.Save(&fam.Memo{Text: op.Str}))
	case "create_lang":
		// a model without relationships whose only hooks are BeforeSave / AfterSave
		return done(db.Create(&fam.Language{Code: "n" + op.Str, Name: op.Str}))
	case "create_langs":
		ls := []fam.Language{{Code: "a" + op.Str, Name: op.Str}, {Code: "b" + op.Str, Name: op.Str}}
		return done(db.Create(&ls))
	case "update_lang":
		return done(db.Model(&fam.Language{Code: "en"}).Update("name", op.Str))
	case "save":
		us := build()
		res.Roots, res.Value = us, us[0]
		return done(db.Save(us[0]))
	case "update":
		u := &fam.User{ID: op.Target}
		res.Roots, res.Value = []*fam.User{u}, u
		return done(db.Model(u).Update("name", op.Str))
	case "updates_struct":
		u := &fam.User{ID: op.Target}
		res.Roots, res.Value = []*fam.User{u}, u
		return done(db.Model(u).Updates(fam.User{Name: op.Str, Age: op.Int}))
	case "updates_ptr":
		// the values come as a pointer to a struct other than the model value
		u := &fam.User{ID: op.Target}
		res.Roots, res.Value = []*fam.User{u}, u
		return done(db.Model(u).Updates(&fam.User{Name: op.Str}))
	case "updates_map":
		u := &fam.User{ID: op.Target}
		res.Roots, res.Value = []*fam.User{u}, u
		return done(db.Model(u).Updates(map[string]interface{}{"name": op.Str, "age": op.Int}))
	case "updates_assoc":
		// Updates with nested association values: the association rows are upserted.
		u := &fam.User{ID: op.Target}
		v := op.Users[0].Build()
		v.ID = 0
		res.Roots, res.Value = []*fam.User{u}, u
		return done(db.Model(u).Updates(v))
	case "updates_self":
		// Updates with the record itself as value: its associations are upserted.
		u := op.Users[0].Build()
		u.ID = op.Target
		res.Roots, res.Value = []*fam.User{u}, u
		return done(db.Updates(u))
	case "update_column":
		u := &fam.User{ID: op.Target}
		res.Roots, res.Value = []*fam.User{u}, u
		return done(db.Model(u).UpdateColumn("name", op.Str))
	case "update_columns":
		u := &fam.User{ID: op.Target}
		res.Roots, res.Value = []*fam.User{u}, u
		return done(db.Model(u).UpdateColumns(fam.User{Name: op.Str, Age: op.Int}))
	case "delete":
		u := &fam.User{ID: op.Target}
		res.Roots, res.Value = []*fam.User{u}, u
		if op.Unscoped {
			db = db.Unscoped()
		}
		return done(db.Delete(u))
	case "delete_pet":
		p := &fam.Pet{ID: op.Target}
		res.Value = p
		return done(db.Delete(p))
	case "delete_select":
		u := &fam.User{ID: op.Target}
		res.Roots, res.Value = []*fam.User{u}, u
		if op.Unscoped {
			db = db.Unscoped()
		}
		sel := make([]interface{}, 0, len(op.Select))
		for _, s := range op.Select[1:] {
			sel = append(sel, s)
		}
		return done(db.Select(op.Select[0], sel...).Delete(u))
	case "delete_where":
		return done(db.Where("age > ?", op.Int).Delete(&fam.User{}))
	case "delete_slice":
		us := []fam.User{}
		for i := 0; i < op.Int; i++ {
			us = append(us, fam.User{ID: op.Target + uint(i)})
		}
		for i := range us {
			res.Roots = append(res.Roots, &us[i])
		}
		res.Value = &us
		return done(db.Delete(&us))
	}
	res.Err = fmt.Errorf("ops: unknown kind %q", op.Kind)
	return res
}

var assocNames = []string{"Account", "Pets", "Toys", "Languages", "Friends", "Team", "Company", "Manager", clause.Associations}

// GenWOp draws one write operation.
func GenWOp(r *core.Rand, kinds []string) WOp {
	g := fam.NewGen(r)
	op := WOp{Kind: r.Pick(kinds)}
	op.Str = fmt.Sprintf("s%d", r.Intn(1000))
	op.Int = r.Intn(60)
	op.Target = uint(1 + r.Intn(fam.FixUsers))
	op.FullSave = r.Chance(25)
	op.ScopeSess = r.Chance(8)
	op.Returning = r.Chance(10)
	switch op.Kind {
	case "create", "save", "updates_assoc", "updates_self":
		op.Users = []fam.UserSpec{g.User(1)}
		if op.Kind == "create" && r.Chance(12) {
			op.SessBatch = 2 // Create of a single struct on a handle with CreateBatchSize
		}
	case "create_slice", "create_ptr_slice", "save_slice":
		n := r.Range(0, 3)
		for i := 0; i < n; i++ {
			op.Users = append(op.Users, g.User(r.Intn(2)))
		}
		if n >= 2 && op.Kind != "save_slice" && r.Chance(20) {
			op.SessBatch = r.Range(1, 2)
		}
		if n >= 2 && op.Kind == "create_ptr_slice" && op.SessBatch == 0 && r.Chance(30) {
			// the first association the operation saves consists of argument records only:
			// new records without any other association
			op.RootFriend = true
			for i := range op.Users {
				op.Users[i] = fam.UserSpec{Name: op.Users[i].Name, Age: op.Users[i].Age}
			}
		}
		if n >= 2 && r.Chance(35) {
			// several parents reference one shared company / friend record (all parents
			// in one batch: each batch of a batched Create is a pipeline of its own and
			// upserts the records it references itself)
			op.Share = true
			op.SessBatch = 0
			co := &fam.CompanySpec{ID: 7000 + uint(r.Intn(3)), Name: "shared-co"}
			fr := fam.UserSpec{ID: 8000 + uint(r.Intn(3)), Name: "shared-friend"}
			if r.Chance(35) {
				// the shared records are new: no key yet
				co = &fam.CompanySpec{Name: fam.SharedNewPrefix + "co"}
				fr = fam.UserSpec{Name: fam.SharedNewPrefix + "friend"}
			}
			for i := range op.Users {
				if r.Chance(70) {
					op.Users[i].Company = co
				}
				if r.Chance(70) {
					op.Users[i].Friends = append(op.Users[i].Friends, fr)
				}
			}
		}
	case "create_batches":
		n := r.Range(1, 5)
		for i := 0; i < n; i++ {
			op.Users = append(op.Users, g.User(0))
		}
		op.BatchSize = r.Range(1, 3)
	case "delete", "delete_select":
		op.Unscoped = r.Chance(30)
		if op.Kind == "delete_select" {
			n := r.Range(1, 3)
			for _, i := range r.Perm(len(assocNames))[:n] {
				op.Select = append(op.Select, assocNames[i])
			}
		}
	case "delete_pet":
		op.Target = uint(1 + r.Intn(fam.FixPets))
	case "delete_slice":
		op.Target = uint(1 + r.Intn(2))
		op.Int = r.Range(1, 3)
	}
	return op
}

// ShrinkWOp proposes smaller operations.
func ShrinkWOp(op WOp) []WOp {
	var out []WOp
	for i := range op.Users {
		if len(op.Users) > 1 || (op.Kind != "create" && op.Kind != "save" && op.Kind != "updates_assoc" && op.Kind != "updates_self") {
			v := op
			v.Users = append(append([]fam.UserSpec{}, op.Users[:i]...), op.Users[i+1:]...)
			out = append(out, v)
		}
		for _, su := range fam.ShrinkUser(op.Users[i]) {
			v := op
			v.Users = append([]fam.UserSpec{}, op.Users...)
			v.Users[i] = su
			out = append(out, v)
		}
	}
	if op.FullSave {
		v := op
		v.FullSave = false
		out = append(out, v)
	}
	if len(op.Select) > 1 {
		for i := range op.Select {
			v := op
			v.Select = append(append([]string{}, op.Select[:i]...), op.Select[i+1:]...)
			out = append(out, v)
		}
	}
	if op.Unscoped {
		v := op
		v.Unscoped = false
		out = append(out, v)
	}
	if op.Share {
		v := op
		v.Share = false
		out = append(out, v)
	}
	if op.RootFriend {
		v := op
		v.RootFriend = false
		out = append(out, v)
	}
	if op.SessBatch > 0 {
		v := op
		v.SessBatch = 0
		out = append(out, v)
	}
	if op.ScopeSess {
		v := op
		v.ScopeSess = false
		out = append(out, v)
	}
	if op.Returning {
		v := op
		v.Returning = false
		out = append(out, v)
	}
	return out
}
