package ops

import (
	"fmt"

	"gorm.io/gorm"
	"gorm.io/gorm/clause"

	"verif/sim/core"
	"verif/sim/fam"
)

// ROp is one read operation.
type ROp struct {
	Kind      string   `json:"kind"`
	Target    uint     `json:"target,omitempty"`
	Int       int      `json:"int,omitempty"`
	Preloads  []string `json:"preloads,omitempty"`
	SkipHooks bool     `json:"skip_hooks,omitempty"`
	Batch     int      `json:"batch,omitempty"`
}

var ReadKinds = []string{"first", "take_struct", "find_all", "find_where", "find_pets", "preload", "find_in_batches", "rows_scan", "count", "pluck", "joins", "assoc_find", "assoc_count",
	"first_or_init", "first_or_create", "raw_scan", "exec_raw", "row", "last", "preload_cond", "joins_preload", "find_names", "find_omit_id"}

var preloadPaths = []string{"Company", "Manager", "Account", "Pets", "Pets.Toy", "Toys", "Team", "Languages", "Friends", "Friends.Pets", "Manager.Company", "Team.Account", clause.Associations}

func GenROp(r *core.Rand, kinds []string) ROp {
	op := ROp{Kind: r.Pick(kinds), Target: uint(1 + r.Intn(fam.FixUsers-1)), Int: r.Intn(40), Batch: r.Range(1, 3)}
	if op.Kind == "preload" {
		n := r.Range(1, 3)
		for _, i := range r.Perm(len(preloadPaths))[:n] {
			op.Preloads = append(op.Preloads, preloadPaths[i])
		}
	}
	return op
}

// Exec runs the read; Value is the destination that was filled.
func (op *ROp) Exec(db *gorm.DB) (res Result) {
	if op.SkipHooks {
		db = db.Session(&gorm.Session{SkipHooks: true})
	}
	done := func(tx *gorm.DB, v interface{}) Result {
		return Result{Err: tx.Error, RowsAffected: tx.RowsAffected, Value: v}
	}
	switch op.Kind {
	case "first":
		var u fam.User
		return done(db.First(&u, op.Target), &u)
	case "take_struct":
		var u fam.User
		return done(db.Where("age > ?", op.Int).Find(&u), &u)
	case "find_all":
		var us []fam.User
		return done(db.Find(&us), &us)
	case "find_where":
		var us []*fam.User
		return done(db.Where("age > ?", op.Int).Find(&us), &us)
	case "find_names":
		// a projection that leaves out the key: the loaded records carry no primary key
		var us []fam.User
		return done(db.Select("name", "age").Find(&us), &us)
	case "find_omit_id":
		var us []*fam.User
		return done(db.Omit("id").Where("age > ?", op.Int).Find(&us), &us)
	case "find_pets":
		var ps []fam.Pet
		return done(db.Find(&ps), &ps)
	case "preload":
		var us []fam.User
		tx := db
		for _, p := range op.Preloads {
			tx = tx.Preload(p)
		}
		return done(tx.Find(&us), &us)
	case "find_in_batches":
		var us, all []fam.User
		tx := db.FindInBatches(&us, op.Batch, func(tx *gorm.DB, batch int) error {
			all = append(all, us...)
			return nil
		})
		return done(tx, &all)
	case "rows_scan":
		var all []fam.User
		rows, err := db.Model(&fam.User{}).Where("age > ?", op.Int).Rows()
		if err != nil {
			return Result{Err: err}
		}
		defer rows.Close()
		for rows.Next() {
			var u fam.User
			if err := db.ScanRows(rows, &u); err != nil {
				return Result{Err: err}
			}
			all = append(all, u)
		}
		return Result{Err: rows.Err(), Value: &all}
	case "count":
		var n int64
		return done(db.Model(&fam.User{}).Where("age > ?", op.Int).Count(&n), &n)
	case "pluck":
		var names []string
		return done(db.Model(&fam.User{}).Order("id").Pluck("name", &names), &names)
	case "joins":
		var us []fam.User
		return done(db.Joins("Company").Joins("Manager").Find(&us), &us)
	case "first_or_init":
		var u fam.User
		return done(db.Where(fam.User{Name: fmt.Sprintf("foi%d", op.Int)}).Attrs(fam.User{Age: 5}).FirstOrInit(&u), &u)
	case "first_or_create":
		var u fam.User
		return done(db.Where(fam.User{Name: fmt.Sprintf("foc%d", op.Int)}).Attrs(fam.User{Age: 6}).FirstOrCreate(&u), &u)
	case "foc_found":
		// the record exists: AfterFind runs, nothing is written
		var u fam.User
		return done(db.Where(fam.User{Name: fmt.Sprintf("fu%d", op.Target)}).Attrs(fam.User{Age: 6}).FirstOrCreate(&u), &u)
	case "foc_assign":
		// the record exists and Assign makes FirstOrCreate update it
		var u fam.User
		return done(db.Where(fam.User{Name: fmt.Sprintf("fu%d", op.Target)}).Assign(fam.User{Age: 60 + op.Int%30}).FirstOrCreate(&u), &u)
	case "raw_scan":
		var us []fam.User
		return done(db.Raw("SELECT * FROM users WHERE age > ?", op.Int).Scan(&us), &us)
	case "exec_raw":
		return done(db.Exec("UPDATE notes SET rank = rank WHERE id = ?", op.Int), nil)
	case "row":
		var name string
		err := db.Model(&fam.User{}).Select("name").Where("id = ?", op.Target).Row().Scan(&name)
		return Result{Err: err, Value: &name}
	case "last":
		var u fam.User
		return done(db.Last(&u), &u)
	case "preload_cond":
		var us []fam.User
		return done(db.Preload("Pets", "name <> ?", "zz").Preload("Friends", func(tx *gorm.DB) *gorm.DB { return tx.Order("id") }).Preload("Pets.Toy").Find(&us), &us)
	case "joins_preload":
		var us []fam.User
		return done(db.Joins("Company").Joins("Manager").Preload("Manager.Pets").Preload("Team").Find(&us), &us)
	case "assoc_find":
		var ps []fam.Pet
		err := db.Model(&fam.User{ID: op.Target}).Association("Pets").Find(&ps)
		return Result{Err: err, Value: &ps}
	case "assoc_count":
		as := db.Model(&fam.User{ID: op.Target}).Association("Languages")
		n := as.Count()
		return Result{Err: as.Error, Value: &n}
	}
	return Result{Err: fmt.Errorf("ops: unknown read kind %q", op.Kind)}
}
