package ops

import (
	"fmt"

	"gorm.io/gorm"

	"verif/sim/core"
	"verif/sim/fam"
)

// AOp is one association-mode call on a fixture user.
type AOp struct {
	Kind   string `json:"kind"`  // append replace delete clear count find
	Assoc  string `json:"assoc"` // Pets Toys Languages Friends Account Company Team
	Target uint   `json:"target"`
	N      int    `json:"n"`
}

var AssocKinds = []string{"append", "replace", "delete", "clear", "count", "find"}
var assocs = []string{"Pets", "Toys", "Languages", "Friends", "Account", "Company", "Team"}

func GenAOp(r *core.Rand) AOp {
	return AOp{Kind: r.Pick(AssocKinds), Assoc: r.Pick(assocs), Target: uint(1 + r.Intn(3)), N: r.Range(1, 2)}
}

func (op *AOp) values() []interface{} {
	var out []interface{}
	for i := 0; i < op.N; i++ {
		switch op.Assoc {
		case "Pets":
			out = append(out, &fam.Pet{Name: fmt.Sprintf("ap%d", i)})
		case "Toys":
			out = append(out, &fam.Toy{Name: fmt.Sprintf("at%d", i)})
		case "Languages":
			out = append(out, &fam.Language{Code: fmt.Sprintf("x%d", i), Name: "al"})
		case "Friends", "Team":
			out = append(out, &fam.User{Name: fmt.Sprintf("af%d", i)})
		case "Account":
			return []interface{}{&fam.Account{Number: "aa"}}
		case "Company":
			return []interface{}{&fam.Company{Name: "ac"}}
		}
	}
	return out
}

// existing returns values that name rows already linked in the fixture.
func (op *AOp) existing() []interface{} {
	switch op.Assoc {
	case "Pets":
		return []interface{}{&fam.Pet{ID: 1}}
	case "Toys":
		return []interface{}{&fam.Toy{ID: 1}}
	case "Languages":
		return []interface{}{&fam.Language{Code: "en"}}
	case "Friends":
		return []interface{}{&fam.User{ID: 2}}
	case "Team":
		return []interface{}{&fam.User{ID: 2}}
	case "Account":
		return []interface{}{&fam.Account{ID: 1}}
	}
	return []interface{}{&fam.Company{ID: 1}}
}

func (op *AOp) Exec(db *gorm.DB) Result {
	u := &fam.User{ID: op.Target}
	as := db.Model(u).Association(op.Assoc)
	if as.Error != nil {
		return Result{Err: as.Error}
	}
	switch op.Kind {
	case "append":
		return Result{Err: as.Append(op.values()...), Value: u}
	case "replace":
		return Result{Err: as.Replace(op.values()...), Value: u}
	case "delete":
		return Result{Err: as.Delete(op.existing()...), Value: u}
	case "clear":
		return Result{Err: as.Clear(), Value: u}
	case "count":
		n := as.Count()
		return Result{Err: as.Error, Value: &n}
	case "find":
		switch op.Assoc {
		case "Pets":
			var v []fam.Pet
			return Result{Err: as.Find(&v), Value: &v}
		case "Toys":
			var v []fam.Toy
			return Result{Err: as.Find(&v), Value: &v}
		case "Languages":
			var v []fam.Language
			return Result{Err: as.Find(&v), Value: &v}
		case "Friends", "Team":
			var v []fam.User
			return Result{Err: as.Find(&v), Value: &v}
		case "Account":
			var v fam.Account
			return Result{Err: as.Find(&v), Value: &v}
		default:
			var v fam.Company
			return Result{Err: as.Find(&v), Value: &v}
		}
	}
	return Result{Err: fmt.Errorf("ops: unknown association op %q", op.Kind)}
}
