package ops

import (
	"fmt"

	"gorm.io/gorm"

	"verif/sim/core"
	"verif/sim/fam"
)

// AOp is one association-mode call on a fixture user.
type AOp struct {
	Kind   string `json:"kind"`  // append replace delete clear count find
	Assoc  string `json:"assoc"` // Pets Toys Languages Friends Account Company Team
	Target uint   `json:"target"`
	N      int    `json:"n"`
	// Unscoped: Delete/Clear/Replace also delete the associated rows, not only the links
	Unscoped bool `json:"unscoped,omitempty"`
	// Parents > 1: the association is taken on a slice of that many users (ids Target, Target+1, …)
	Parents int `json:"parents,omitempty"`
}

var AssocKinds = []string{"append", "replace", "delete", "clear", "count", "find"}
var assocs = []string{"Pets", "Toys", "Languages", "Friends", "Account", "Company", "Team", "Manager"}

func GenAOp(r *core.Rand) AOp {
	op := AOp{Kind: r.Pick(AssocKinds), Assoc: r.Pick(assocs), Target: uint(1 + r.Intn(3)), N: r.Range(1, 2)}
	op.Unscoped = r.Chance(25)
	if r.Chance(25) {
		op.Parents = 2
		op.Target = uint(1 + r.Intn(2))
	}
	return op
}

func (op *AOp) values() []interface{} {
	var out []interface{}
	for i := 0; i < op.N; i++ {
		switch op.Assoc {
		case "Pets":
			out = append(out, &fam.Pet{Name: fmt.Sprintf("ap%d", i)})
		case "Toys":
			out = append(out, &fam.Toy{Name: fmt.Sprintf("at%d", i)})
		case "Languages":
			out = append(out, &fam.Language{Code: fmt.Sprintf("x%d", i), Name: "al"})
		case "Friends", "Team":
			out = append(out, &fam.User{Name: fmt.Sprintf("af%d", i)})
		case "Account":
			return []interface{}{&fam.Account{Number: "aa"}}
		case "Company":
			return []interface{}{&fam.Company{Name: "ac"}}
		case "Manager":
			return []interface{}{&fam.User{Name: "am"}}
		}
	}
	return out
}

// existing returns values that name rows already linked in the fixture.
func (op *AOp) existing() []interface{} {
	switch op.Assoc {
	case "Pets":
		return []interface{}{&fam.Pet{ID: 1}}
	case "Toys":
		return []interface{}{&fam.Toy{ID: 1}}
	case "Languages":
		return []interface{}{&fam.Language{Code: "en"}}
	case "Friends":
		return []interface{}{&fam.User{ID: 2}}
	case "Team":
		return []interface{}{&fam.User{ID: 2}}
	case "Account":
		return []interface{}{&fam.Account{ID: 1}}
	case "Manager":
		return []interface{}{&fam.User{ID: 1}}
	}
	return []interface{}{&fam.Company{ID: 1}}
}

func (op *AOp) Exec(db *gorm.DB) Result {
	var u interface{} = &fam.User{ID: op.Target}
	if op.Parents > 1 {
		us := make([]fam.User, op.Parents)
		for i := range us {
			us[i].ID = op.Target + uint(i)
		}
		u = &us
	}
	as := db.Model(u).Association(op.Assoc)
	if as.Error != nil {
		return Result{Err: as.Error}
	}
	if op.Unscoped {
		as = as.Unscoped()
	}
	switch op.Kind {
	case "append":
		vals := op.values()
		if op.Parents > 1 {
			// one value (or slice of values) per parent
			vals = nil
			for i := 0; i < op.Parents; i++ {
				vals = append(vals, op.values()[0])
			}
		}
		return Result{Err: as.Append(vals...), Value: u}
	case "replace":
		vals := op.values()
		if op.Parents > 1 {
			vals = nil
			for i := 0; i < op.Parents; i++ {
				vals = append(vals, op.values()[0])
			}
		}
		return Result{Err: as.Replace(vals...), Value: u}
	case "delete":
		return Result{Err: as.Delete(op.existing()...), Value: u}
	case "clear":
		return Result{Err: as.Clear(), Value: u}
	case "count":
		n := as.Count()
		return Result{Err: as.Error, Value: &n}
	case "find":
		switch op.Assoc {
		case "Pets":
			var v []fam.Pet
			return Result{Err: as.Find(&v), Value: &v}
		case "Toys":
			var v []fam.Toy
			return Result{Err: as.Find(&v), Value: &v}
		case "Languages":
			var v []fam.Language
			return Result{Err: as.Find(&v), Value: &v}
		case "Friends", "Team":
			var v []fam.User
			return Result{Err: as.Find(&v), Value: &v}
		case "Manager":
			var v []fam.User
			return Result{Err: as.Find(&v), Value: &v}
		case "Account":
			var v fam.Account
			return Result{Err: as.Find(&v), Value: &v}
		default:
			var v fam.Company
			return Result{Err: as.Find(&v), Value: &v}
		}
	}
	return Result{Err: fmt.Errorf("ops: unknown association op %q", op.Kind)}
}
