package ops

import (
	"fmt"
	"sort"
	"strings"
	"time"

	"gorm.io/gorm"

	"verif/sim/core"
	"verif/sim/env"
	"verif/sim/fam"
	"verif/sim/sched"
	"verif/sim/simdrv"
	"verif/sim/simrt"
)

// HookFault makes the Occ-th (0-based) invocation of Model.Hook return an error.
type HookFault struct {
	ID    int    `json:"id"`
	Hook  string `json:"hook"`
	Model string `json:"model"`
	Occ   int    `json:"occ"`
	Class string `json:"class,omitempty"` // the well-known error the hook's error wraps (simdrv.ClassError)
	Panic bool   `json:"panic,omitempty"` // the hook panics (with a *HookPanic) instead of returning an error; the caller recovers
}

// HookPanic is the value a panicking hook panics with.
type HookPanic struct{ ID int }

// ApplyClass makes every error-returning fault of the list wrap the error
// class (ErrBadConn bursts and cancellations keep their own values).
func ApplyClass(fs []Fault, class string) {
	for i := range fs {
		switch {
		case fs[i].Hook != nil:
			fs[i].Hook.Class = class
		case fs[i].Drv != nil && fs[i].Drv.Type != "bad_conn":
			fs[i].Drv.Class = class
		}
	}
}

func HookMarker(id int) string { return fmt.Sprintf("hookfault#%d(", id) }

type HookErr struct {
	ID    int
	What  string
	Class string
}

func (e *HookErr) Unwrap() error { return simdrv.ClassError(e.Class) }

func (e *HookErr) Error() string { return fmt.Sprintf("hookfault#%d(%s)", e.ID, e.What) }

// HookEvent is one recorded hook invocation.
type HookEvent struct {
	Seq   int64  `json:"seq"`
	Hook  string `json:"hook"`
	Model string `json:"model"`
	Rec   string `json:"rec"`  // pointer identity of the in-memory record
	Pool  string `json:"pool"` // identity of the ConnPool carried by the *gorm.DB the hook was given
	InTx  bool   `json:"in_tx"`
	Err   string `json:"err,omitempty"`
	rec   interface{}
}

func (h HookEvent) RecPtr() interface{} { return h.rec }

// SingleRun is everything observed around one operation on a fresh database.
type SingleRun struct {
	Hung      []string // the operation never returned: the goroutines blocked inside gorm
	Res       Result
	D0, D1    string
	DumpErr   error
	Events    []simdrv.Event
	Hooks     []HookEvent
	HookFired bool
	Panicked  *HookPanic // the panic value that reached the caller of the operation (nil: none)
	PanicMsg  string     // any other panic value that reached the caller
	Open      simdrv.Counts
	InUse     int
	ClockN    int64
}

// CancelFault cancels the operation's context just before its K-th (0-based)
// call into the connection pool (BEGIN, a statement, a preparation, COMMIT).
type CancelFault struct {
	ID    int    `json:"id"`
	K     int    `json:"k"`
	At    string `json:"at"` // the kind of pool call the cancellation precedes
	Fired bool   `json:"-"`
}

// Fault is one planned fault of a single-operation run.
type Fault struct {
	Drv    *simdrv.Fault `json:"drv,omitempty"`
	Hook   *HookFault    `json:"hook,omitempty"`
	Cancel *CancelFault  `json:"cancel,omitempty"`
}

func (f *Fault) String() string {
	if f == nil {
		return "none"
	}
	if f.Hook != nil {
		if f.Hook.Panic {
			return fmt.Sprintf("hook_panic %s.%s#%d", f.Hook.Model, f.Hook.Hook, f.Hook.Occ)
		}
		return fmt.Sprintf("hook_err %s.%s#%d", f.Hook.Model, f.Hook.Hook, f.Hook.Occ)
	}
	if f.Cancel != nil {
		return fmt.Sprintf("cancel before pool call #%d (%s)", f.Cancel.K, f.Cancel.At)
	}
	d := f.Drv
	s := fmt.Sprintf("%s %s #%d", d.Kind, d.Type, d.Occ)
	if d.Burst > 1 {
		s += fmt.Sprintf(" burst=%d", d.Burst)
	}
	if d.Type == "rows_err" {
		s += fmt.Sprintf(" row=%d", d.Row)
	}
	if d.SQL != "" {
		s += " " + d.SQL
	}
	return s
}

// HashName identifies the fault in run hashes: like String, but without what
// depends on the order in which gorm happened to issue commutative statements
// (the kind of the pool call a cancellation precedes).
func (f *Fault) HashName() string {
	if f != nil && f.Cancel != nil {
		return fmt.Sprintf("cancel#%d", f.Cancel.K)
	}
	return f.String()
}

// Short is a compact signature of the fault for violation keys.
func (f *Fault) Short() string {
	if f == nil {
		return "none"
	}
	if f.Hook != nil {
		if f.Hook.Panic {
			return fmt.Sprintf("hook_panic:%s.%s", f.Hook.Model, f.Hook.Hook)
		}
		return fmt.Sprintf("hook_err:%s.%s", f.Hook.Model, f.Hook.Hook)
	}
	if f.Cancel != nil {
		return "cancel:" + f.Cancel.At
	}
	return fmt.Sprintf("%s_%s:%s", f.Drv.Kind, f.Drv.Type, SQLSig(f.Drv.SQL))
}

// SQLSig reduces a statement to verb + table.
func SQLSig(q string) string {
	w := strings.Fields(q)
	if len(w) == 0 {
		return ""
	}
	verb := strings.ToUpper(w[0])
	for i, x := range w {
		u := strings.ToUpper(x)
		if (u == "INTO" || u == "FROM" || u == "UPDATE") && i+1 < len(w) {
			t := strings.Trim(w[i+1], "`\"")
			if k := strings.IndexAny(t, "`\" ("); k > 0 {
				t = t[:k]
			}
			return verb + " " + t
		}
	}
	if len(w) > 1 {
		return verb + " " + w[1]
	}
	return verb
}

// Fired reports whether the planned fault actually fired.
func (f *Fault) Fired(sr *SingleRun) bool {
	if f == nil {
		return false
	}
	if f.Hook != nil {
		return sr.HookFired
	}
	if f.Cancel != nil {
		return f.Cancel.Fired
	}
	return f.Drv.Fired > 0
}

// Marker is the substring the returned error text must contain.
func (f *Fault) Marker() string {
	if f.Hook != nil {
		return HookMarker(f.Hook.ID)
	}
	if f.Cancel != nil {
		return "context canceled"
	}
	return simdrv.Marker(f.Drv.ID)
}

// HookAction lets a check make hooks do more than report (set fields, write rows).
type HookAction func(hc fam.HookCall, ev *HookEvent) error

// RunSingle opens a fresh environment, runs do() with the fault installed and
// collects everything the oracles need.
func RunSingle(o env.Options, f *Fault, action HookAction, do func(e *env.Env) Result) (*SingleRun, error) {
	if f == nil {
		return RunMulti(o, nil, action, do)
	}
	return RunMulti(o, []*Fault{f}, action, do)
}

// HangTimeout is the real time one operation may take before the run is ended.
var HangTimeout = 10 * time.Second

// HungViolation is the verdict for a run whose operation never returned.
func (sr *SingleRun) HungViolation() *core.Violation {
	if len(sr.Hung) == 0 {
		return nil
	}
	return &core.Violation{Class: "deadlock", Key: "blocked_in_gorm|" + sr.Hung[0], Detail: fmt.Sprintf("the operation never returned (single caller, nothing else running): blocked inside gorm on a lock or channel: %v", sr.Hung)}
}

// RunMulti is RunSingle with any number of planned faults.
func RunMulti(o env.Options, fs []*Fault, action HookAction, do func(e *env.Env) Result) (*SingleRun, error) {
	e, err := env.Open(o)
	if err != nil {
		return nil, err
	}
	defer e.Close()
	sr := &SingleRun{}
	if sr.D0, err = e.Dump(); err != nil {
		return nil, err
	}
	var drv []*simdrv.Fault
	var f *Fault // at most one hook fault per run
	for _, x := range fs {
		if x.Drv != nil {
			drv = append(drv, x.Drv)
		} else if x.Hook != nil {
			f = x
		} // a cancellation is installed by the caller (it owns the context)
	}
	e.Drv.SetFaults(drv)
	counts := map[string]int{}
	fam.Sink = func(hc fam.HookCall) error {
		ev := HookEvent{Seq: e.Drv.Tick(), Hook: hc.Hook, Model: hc.Model, Rec: fmt.Sprintf("%p", hc.Rec), rec: hc.Rec}
		if hc.Tx != nil && hc.Tx.Statement != nil {
			ev.Pool = fmt.Sprintf("%T@%p", hc.Tx.Statement.ConnPool, hc.Tx.Statement.ConnPool)
			_, ev.InTx = hc.Tx.Statement.ConnPool.(gorm.TxCommitter)
		}
		k := hc.Model + "." + hc.Hook
		n := counts[k]
		counts[k]++
		var herr error
		if f != nil && f.Hook != nil && f.Hook.Model == hc.Model && f.Hook.Hook == hc.Hook && f.Hook.Occ == n {
			sr.HookFired = true
			if f.Hook.Panic {
				sr.Hooks = append(sr.Hooks, ev)
				panic(&HookPanic{ID: f.Hook.ID})
			}
			herr = &HookErr{ID: f.Hook.ID, What: k, Class: f.Hook.Class}
		}
		if herr == nil && action != nil {
			herr = action(hc, &ev)
		}
		if herr != nil {
			ev.Err = herr.Error()
		}
		sr.Hooks = append(sr.Hooks, ev)
		return herr
	}
	// the operation runs in a goroutine of its own, watched in real time: code that
	// waits for a lock nobody will release must end the run with a verdict, not hang the worker
	done := make(chan struct{})
	prevCur := e.Drv.Cur
	go func() {
		defer close(done)
		me := simrt.Goid()
		e.Drv.Cur = func() int { // this goroutine is the task: its driver calls are the operation's
			if simrt.Goid() == me {
				return 0
			}
			return prevCur()
		}
		// the caller of the operation recovers panics, like a request handler's middleware
		defer func() {
			if pv := recover(); pv != nil {
				if hp, ok := pv.(*HookPanic); ok {
					sr.Panicked = hp
				} else {
					sr.PanicMsg = fmt.Sprint(pv)
				}
				sr.Res.Err = fmt.Errorf("panic reached the caller: %v", pv)
			}
		}()
		sr.Res = do(e)
	}()
	finished := func(d time.Duration) bool {
		select {
		case <-done:
			return true
		case <-time.After(d):
			return false
		}
	}
	if !finished(HangTimeout) {
		// stuck, or only slow (a loaded machine)?  Stuck = a goroutine sits on a lock or
		// channel inside gorm now and still does a few seconds later.
		hung := sched.BlockedInGorm()
		var still []string
		if len(hung) > 0 && !finished(3*time.Second) {
			now := map[string]int{}
			for _, b := range sched.BlockedInGorm() {
				now[b]++
			}
			for _, b := range hung {
				if now[b] > 0 {
					now[b]--
					still = append(still, b)
				}
			}
		}
		if len(still) > 0 {
			e.Drv.Passive = true
			fam.Sink = func(fam.HookCall) error { return nil }
			return &SingleRun{Hung: still, D0: sr.D0, D1: sr.D0}, nil
		}
		if !finished(5 * HangTimeout) {
			e.Drv.Passive = true
			fam.Sink = func(fam.HookCall) error { return nil }
			return nil, fmt.Errorf("the operation did not return within %v and no goroutine is blocked on a lock or channel inside gorm", 6*HangTimeout)
		}
	}
	e.Drv.Cur = prevCur
	fam.Sink = nil
	sr.InUse = e.Pool.Stats().InUse
	for i := 0; sr.InUse != 0 && i < 8000; i++ { // up to 4 s, only spent while something is still checked out
		// database/sql's context watcher releases a cancelled transaction's connection asynchronously
		time.Sleep(500 * time.Microsecond)
		sr.InUse = e.Pool.Stats().InUse
	}
	sr.Events = e.Drv.Events()
	sr.Open = simdrv.CountOpen(sr.Events)
	sr.ClockN = e.Clock.Calls()
	e.Drv.Passive = true
	sr.D1, sr.DumpErr = e.Dump()
	return sr, nil
}

// TraceHashParts renders the run for hashing (no pointers, no sequence
// numbers).  gorm iterates Go maps in a few places (the association deletes of
// one operation, the associations of one record), so the order of some
// statements and hooks legitimately varies between two executions of the same
// case: the rendering is therefore the sorted multiset of driver events and of
// hook invocations plus the outcome.
func (sr *SingleRun) TraceHashParts() []string {
	var evs, hooks []string
	for _, ev := range sr.Events {
		if ev.Task < 0 {
			continue // asynchronous goroutines (database/sql watchers): not part of the trace
		}
		evs = append(evs, ev.Kind+" "+ev.SQL+" "+strings.Join(ev.Args, ",")+" "+ev.Fault+" "+fmt.Sprint(ev.Err != ""))
	}
	for _, h := range sr.Hooks {
		hooks = append(hooks, "hook "+h.Model+"."+h.Hook+" "+fmt.Sprint(h.InTx)+" "+fmt.Sprint(h.Err != ""))
	}
	sort.Strings(evs)
	sort.Strings(hooks)
	parts := append(evs, hooks...)
	parts = append(parts, fmt.Sprint(sr.Res.Err != nil), fmt.Sprint(sr.Res.RowsAffected))
	return parts
}

// FaultedHash identifies one faulted run by what is deterministic about it: the
// fault-free trace of its case, the fault, and the outcome.  (The statements
// gorm issues before reaching the faulted one may legitimately differ between
// two executions, see TraceHashParts.)
func FaultedHash(baseHash, fault string, sr *SingleRun, extra ...string) string {
	state := "other"
	switch {
	case sr.DumpErr != nil:
		state = "dump-error"
	case sr.D1 == sr.D0:
		state = "unchanged"
	}
	parts := []string{baseHash, fault, fmt.Sprint(sr.Res.Err != nil), state, sr.Leak()}
	return coreHash(append(parts, extra...)...)
}

// SortFaults puts fault sites into a canonical order (independent of the order
// in which gorm happened to issue commutative statements), so that a seeded
// sample of sites is the same in every execution of a case.
func SortFaults(fs []Fault) {
	key := func(f Fault) string {
		if f.Hook != nil {
			return fmt.Sprintf("h|%s|%s|%06d|%v", f.Hook.Model, f.Hook.Hook, f.Hook.Occ, f.Hook.Panic)
		}
		if f.Cancel != nil {
			return fmt.Sprintf("c|%06d", f.Cancel.K)
		}
		d := f.Drv
		return fmt.Sprintf("d|%s|%s|%06d|%s|%d|%d", d.Kind, d.SQL, d.Occ, d.Type, d.Burst, d.Row)
	}
	sort.SliceStable(fs, func(i, j int) bool { return key(fs[i]) < key(fs[j]) })
	for i := range fs {
		switch {
		case fs[i].Hook != nil:
			fs[i].Hook.ID = i + 1
		case fs[i].Cancel != nil:
			fs[i].Cancel.ID = i + 1
		default:
			fs[i].Drv.ID = i + 1
		}
	}
}

// Leak describes resources left behind, or "".
func (sr *SingleRun) Leak() string {
	var p []string
	if sr.InUse != 0 {
		p = append(p, fmt.Sprintf("sql.DB.Stats().InUse=%d", sr.InUse))
	}
	if sr.Open.OpenTx != 0 {
		p = append(p, fmt.Sprintf("open driver transactions=%d", sr.Open.OpenTx))
	}
	if sr.Open.OpenRows != 0 {
		p = append(p, fmt.Sprintf("open driver row sets=%d", sr.Open.OpenRows))
	}
	return strings.Join(p, ", ")
}

// DriverSites lists the fault sites the recorded driver events offer.
// withTx tells, per event index, whether the connection had a transaction open.
func DriverSites(evs []simdrv.Event, nextID *int) []Fault {
	var out []Fault
	occ := map[string]int{}
	inTx := map[int]bool{}
	add := func(k, sql string, o int, typ string, burst, row int) {
		*nextID++
		out = append(out, Fault{Drv: &simdrv.Fault{ID: *nextID, Kind: k, SQL: sql, Occ: o, Type: typ, Burst: burst, Row: row}})
	}
	for i, ev := range evs {
		if ev.Task < 0 {
			continue
		}
		key := ev.Kind + "\x00" + ev.SQL
		switch ev.Kind {
		case "begin":
			o := occ["begin"]
			occ["begin"]++
			add("begin", "", o, "err", 0, 0)
			add("begin", "", o, "bad_conn", 1, 0)
			add("begin", "", o, "bad_conn", 3, 0)
			inTx[ev.Conn] = true
		case "commit":
			o := occ["commit"]
			occ["commit"]++
			add("commit", "", o, "err", 0, 0)
			add("commit", "", o, "ack_lost", 0, 0)
			add("commit", "", o, "bad_conn", 1, 0)
			inTx[ev.Conn] = false
		case "rollback":
			occ["rollback"]++
			inTx[ev.Conn] = false
		case "prepare":
			o := occ[key]
			occ[key]++
			add("prepare", ev.SQL, o, "err", 0, 0)
			add("prepare", ev.SQL, o, "bad_conn", 1, 0)
		case "exec":
			o := occ[key]
			occ[key]++
			add("exec", ev.SQL, o, "err", 0, 0)
			add("exec", ev.SQL, o, "bad_conn", 1, 0)
			if !inTx[ev.Conn] {
				add("exec", ev.SQL, o, "bad_conn", 3, 0)
			} else {
				add("exec", ev.SQL, o, "applied_err", 0, 0)
			}
		case "query":
			o := occ[key]
			occ[key]++
			add("query", ev.SQL, o, "err", 0, 0)
			add("query", ev.SQL, o, "bad_conn", 1, 0)
			if !inTx[ev.Conn] {
				add("query", ev.SQL, o, "bad_conn", 3, 0)
			}
			// rows delivered by this query: the next rows_close on the same connection
			n := 0
			for _, later := range evs[i+1:] {
				if later.Kind == "rows_close" && later.Conn == ev.Conn {
					n = later.Rows
					break
				}
			}
			for j := 0; j <= n && j < 4; j++ {
				add("next", ev.SQL, o, "rows_err", 0, j)
			}
		}
	}
	return out
}

// HookSites lists one hook_err fault per recorded hook invocation.
func HookSites(hooks []HookEvent, nextID *int) []Fault {
	var out []Fault
	occ := map[string]int{}
	for _, h := range hooks {
		k := h.Model + "." + h.Hook
		*nextID++
		out = append(out, Fault{Hook: &HookFault{ID: *nextID, Hook: h.Hook, Model: h.Model, Occ: occ[k]}})
		occ[k]++
	}
	return out
}

// HookPanicSites lists one hook_panic fault per recorded hook invocation.
func HookPanicSites(hooks []HookEvent, nextID *int) []Fault {
	out := HookSites(hooks, nextID)
	for i := range out {
		out[i].Hook.Panic = true
	}
	return out
}

func coreHash(parts ...string) string { return core.Hash(parts...) }
