// Package simpool is the gorm.ConnPool the simulated handle is opened on: a thin
// wrapper around *sql.DB / *sql.Tx that records every call gorm makes (with the
// tag of the context it passed), can cancel the operation's context just before
// the k-th call, and — in multi-task runs — is where tasks yield and wait for the
// simulated single-writer token and the simulated pool bound.  It never holds a
// lock while a task is parked.
package simpool

import (
	"context"
	"database/sql"
	"errors"
	"time"

	"gorm.io/gorm"

	"verif/sim/simdrv"
)

// Sched is what simpool needs from the task scheduler (nil in single-task runs).
type Sched interface {
	Yield(point string)
	// WaitUntil parks the calling task until cond() holds; false = the run was aborted.
	WaitUntil(what string, cond func() bool) bool
	Cur() int
}

// Event is one call gorm made on the pool or on a transaction of it.
type Event struct {
	Seq  int64  `json:"seq"`
	Task int    `json:"task"`
	Kind string `json:"kind"` // begin commit rollback prepare exec query query_row
	SQL  string `json:"sql,omitempty"`
	Ctx  string `json:"ctx,omitempty"`
	Err  string `json:"err,omitempty"`
	InTx bool   `json:"in_tx,omitempty"`
	Note string `json:"note,omitempty"`
}

// ErrAborted is returned to gorm when the simulator tears a run down.
var ErrAborted = errors.New("simpool: run aborted by the simulator")

// ErrCommitRefused is what a refused Commit returns (Pool.RefuseCommit).
var ErrCommitRefused = errors.New("simpool: commit refused by the wrapper")

type Pool struct {
	DB    *sql.DB
	Drv   *simdrv.Sim
	Sched Sched
	// PerTask, when set, gives every simulated task its own *sql.DB on the same
	// database.  Tasks then never pass through the same database/sql mutexes, so
	// the order in which a serial execution happens to run them creates no
	// happens-before edges between them: the race detector judges gorm's own
	// synchronisation only.
	PerTask []*sql.DB

	bufs [simdrv.MaxTasks][]Event

	// cancellation plan: cancel() is invoked just before the CancelAt-th call (0-based); -1 = never
	CancelAt int
	// Points lists, per pool call, its kind ("begin", "tx-exec", "commit", …)
	Points    []string
	Cancel    context.CancelFunc
	calls     int
	CancelSeq int64 // event sequence number at which the cancellation happened (0 = did not happen)

	// single-writer token and simulated pool bound (multi-task runs)
	UseToken bool
	tokenBy  int // task holding the token + 1; 0 = free
	Bound    int // 0 = unbounded
	inUse    int
	aborted  bool
	// ValueTx: BeginTx returns its transaction wrapper by value (TxV) instead of a pointer.
	ValueTx bool
	// RefuseCommit: Tx.Commit fails without reaching *sql.Tx (the transaction stays open
	// until somebody rolls it back); RefusedCommits counts those calls.
	RefuseCommit   bool
	RefusedCommits int
}

func New(db *sql.DB, drv *simdrv.Sim) *Pool {
	return &Pool{DB: db, Drv: drv, CancelAt: -1}
}

// db returns the *sql.DB the calling task uses.
//
//go:norace
func (p *Pool) db() *sql.DB {
	if p.PerTask != nil {
		if t := p.cur(); t >= 0 && t < len(p.PerTask) && p.PerTask[t] != nil {
			return p.PerTask[t]
		}
	}
	return p.DB
}

//go:norace
func (p *Pool) cur() int {
	if p.Sched == nil {
		return 0
	}
	return p.Sched.Cur()
}

//go:norace
func (p *Pool) record(ev Event) {
	t := p.cur()
	if t < 0 || t >= simdrv.MaxTasks {
		return
	}
	ev.Task = t
	ev.Seq = p.Drv.Tick()
	p.bufs[t] = append(p.bufs[t], ev)
}

// Events merges the per-task buffers in sequence order (after all tasks are joined).
func (p *Pool) Events() []Event {
	var all []Event
	idx := make([]int, simdrv.MaxTasks)
	for {
		best := -1
		for t := 0; t < simdrv.MaxTasks; t++ {
			if idx[t] < len(p.bufs[t]) && (best < 0 || p.bufs[t][idx[t]].Seq < p.bufs[best][idx[best]].Seq) {
				best = t
			}
		}
		if best < 0 {
			return all
		}
		all = append(all, p.bufs[best][idx[best]])
		idx[best]++
	}
}

// Calls returns the number of pool calls made so far.
//
//go:norace
func (p *Pool) Calls() int { return p.calls }

// Abort makes every pending and future wait fail (run teardown).
//
//go:norace
func (p *Pool) Abort() { p.aborted = true }

//go:norace
func (p *Pool) isAborted() bool { return p.aborted }

// enter is called at the start of every pool call: yield, planned cancellation.
//
//go:norace
func (p *Pool) enter(point string) {
	if p.Sched != nil {
		p.Sched.Yield("pool:" + point)
	}
	n := p.calls
	p.calls++
	if len(p.Points) < 1024 {
		p.Points = append(p.Points, point)
	}
	if p.CancelAt >= 0 && n == p.CancelAt && p.Cancel != nil {
		p.Cancel()
		p.CancelSeq = p.Drv.Tick()
	}
}

func (p *Pool) leave(point string) {
	if p.Sched != nil {
		p.Sched.Yield("pool-ret:" + point)
	}
}

//go:norace
func (p *Pool) tokenFree() bool { return p.tokenBy == 0 }

//go:norace
func (p *Pool) takeToken() { p.tokenBy = p.cur() + 1 }

//go:norace
func (p *Pool) dropToken() {
	if p.tokenBy == p.cur()+1 {
		p.tokenBy = 0
	}
}

//go:norace
func (p *Pool) holdsToken() bool { return p.tokenBy == p.cur()+1 }

//go:norace
func (p *Pool) slotFree() bool { return p.Bound <= 0 || p.inUse < p.Bound }

//go:norace
func (p *Pool) takeSlot() { p.inUse++ }

//go:norace
func (p *Pool) dropSlot() { p.inUse-- }

// acquire waits for the resources a call needs; false = aborted.
func (p *Pool) acquire(token, slot bool) bool {
	if p.Sched == nil {
		return true
	}
	if slot && p.Bound > 0 {
		if !p.Sched.WaitUntil("pool slot", p.slotFree) {
			return false
		}
		p.takeSlot()
	}
	if token && p.UseToken && !p.holdsToken() {
		if !p.Sched.WaitUntil("write token", p.tokenFree) {
			if slot && p.Bound > 0 {
				p.dropSlot()
			}
			return false
		}
		p.takeToken()
	}
	return !p.isAborted()
}

func isWrite(q string) bool {
	for i := 0; i < len(q); i++ {
		c := q[i]
		if c == ' ' || c == '\n' || c == '\t' || c == '(' {
			continue
		}
		return !(c == 'S' || c == 's') || (len(q) > i+1 && (q[i+1] == 'A' || q[i+1] == 'a')) // SELECT is a read; SAVEPOINT is not
	}
	return false
}

func errStr(err error) string {
	if err == nil {
		return ""
	}
	return err.Error()
}

// ---------------------------------------------------------------- ConnPool

func (p *Pool) PrepareContext(ctx context.Context, q string) (*sql.Stmt, error) {
	p.enter("prepare")
	if !p.acquire(false, true) {
		return nil, ErrAborted
	}
	p.record(Event{Kind: "prepare_start", SQL: simdrv.NormSQL(q)})
	if p.Sched != nil {
		p.Sched.Yield("pool:prepare-inflight")
	}
	st, err := p.db().PrepareContext(ctx, q)
	if p.Bound > 0 && p.Sched != nil {
		p.dropSlot()
	}
	p.record(Event{Kind: "prepare", SQL: simdrv.NormSQL(q), Ctx: p.Drv.CtxTag(ctx), Err: errStr(err)})
	p.leave("prepare")
	return st, err
}

func (p *Pool) ExecContext(ctx context.Context, q string, args ...interface{}) (sql.Result, error) {
	p.enter("exec")
	w := isWrite(q)
	had := p.holdsToken()
	if !p.acquire(w, true) {
		return nil, ErrAborted
	}
	res, err := p.db().ExecContext(ctx, q, args...)
	if p.Sched != nil {
		if p.Bound > 0 {
			p.dropSlot()
		}
		if w && !had {
			p.dropToken()
		}
	}
	p.record(Event{Kind: "exec", SQL: simdrv.NormSQL(q), Ctx: p.Drv.CtxTag(ctx), Err: errStr(err)})
	p.leave("exec")
	return res, err
}

func (p *Pool) QueryContext(ctx context.Context, q string, args ...interface{}) (*sql.Rows, error) {
	p.enter("query")
	w := isWrite(q)
	had := p.holdsToken()
	if !p.acquire(w, true) {
		return nil, ErrAborted
	}
	rows, err := p.db().QueryContext(ctx, q, args...)
	if p.Sched != nil {
		if p.Bound > 0 {
			p.dropSlot() // simplification: the slot of an autocommit query is released when the call returns
		}
		if w && !had {
			p.dropToken()
		}
	}
	p.record(Event{Kind: "query", SQL: simdrv.NormSQL(q), Ctx: p.Drv.CtxTag(ctx), Err: errStr(err)})
	p.leave("query")
	return rows, err
}

func (p *Pool) QueryRowContext(ctx context.Context, q string, args ...interface{}) *sql.Row {
	p.enter("query_row")
	row := p.db().QueryRowContext(ctx, q, args...)
	p.record(Event{Kind: "query_row", SQL: simdrv.NormSQL(q), Ctx: p.Drv.CtxTag(ctx), Err: errStr(row.Err())})
	p.leave("query_row")
	return row
}

func (p *Pool) GetDBConn() (*sql.DB, error) { return p.DB, nil }
func (p *Pool) Ping() error                 { return p.DB.Ping() }

// BeginTx implements gorm.ConnPoolBeginner.
func (p *Pool) BeginTx(ctx context.Context, opts *sql.TxOptions) (gorm.ConnPool, error) {
	p.enter("begin")
	readOnly := opts != nil && opts.ReadOnly
	if !p.acquire(!readOnly, true) {
		return nil, ErrAborted
	}
	tx, err := p.db().BeginTx(ctx, opts)
	p.record(Event{Kind: "begin", Ctx: p.Drv.CtxTag(ctx), Err: errStr(err)})
	if err != nil {
		if p.Sched != nil {
			if p.Bound > 0 {
				p.dropSlot()
			}
			if !readOnly {
				p.dropToken()
			}
		}
		p.leave("begin")
		return nil, err
	}
	p.leave("begin")
	t := &Tx{p: p, tx: tx, ctx: ctx, token: !readOnly}
	if p.ValueTx {
		return TxV{t}, nil
	}
	return t, nil
}

// TxV is a transaction handed out by value (a wrapper type need not be a pointer).
type TxV struct{ *Tx }

var _ gorm.Tx = TxV{}

// ---------------------------------------------------------------- Tx

// Tx implements gorm.Tx over *sql.Tx.
type Tx struct {
	p     *Pool
	tx    *sql.Tx
	ctx   context.Context
	token bool
	done  bool
}

var (
	_ gorm.Tx               = (*Tx)(nil)
	_ gorm.ConnPoolBeginner = (*Pool)(nil)
	_ gorm.GetDBConnector   = (*Pool)(nil)
)

func (t *Tx) PrepareContext(ctx context.Context, q string) (*sql.Stmt, error) {
	t.p.enter("tx-prepare")
	t.p.record(Event{Kind: "prepare_start", SQL: simdrv.NormSQL(q), InTx: true})
	st, err := t.tx.PrepareContext(ctx, q)
	t.p.record(Event{Kind: "prepare", SQL: simdrv.NormSQL(q), Ctx: t.p.Drv.CtxTag(ctx), Err: errStr(err), InTx: true})
	t.p.leave("tx-prepare")
	return st, err
}

func (t *Tx) ExecContext(ctx context.Context, q string, args ...interface{}) (sql.Result, error) {
	t.p.enter("tx-exec")
	res, err := t.tx.ExecContext(ctx, q, args...)
	t.p.record(Event{Kind: "exec", SQL: simdrv.NormSQL(q), Ctx: t.p.Drv.CtxTag(ctx), Err: errStr(err), InTx: true})
	t.p.leave("tx-exec")
	return res, err
}

func (t *Tx) QueryContext(ctx context.Context, q string, args ...interface{}) (*sql.Rows, error) {
	t.p.enter("tx-query")
	rows, err := t.tx.QueryContext(ctx, q, args...)
	t.p.record(Event{Kind: "query", SQL: simdrv.NormSQL(q), Ctx: t.p.Drv.CtxTag(ctx), Err: errStr(err), InTx: true})
	t.p.leave("tx-query")
	return rows, err
}

func (t *Tx) QueryRowContext(ctx context.Context, q string, args ...interface{}) *sql.Row {
	t.p.enter("tx-query_row")
	row := t.tx.QueryRowContext(ctx, q, args...)
	t.p.record(Event{Kind: "query_row", SQL: simdrv.NormSQL(q), Ctx: t.p.Drv.CtxTag(ctx), Err: errStr(row.Err()), InTx: true})
	t.p.leave("tx-query_row")
	return row
}

func (t *Tx) StmtContext(ctx context.Context, st *sql.Stmt) *sql.Stmt {
	return t.tx.StmtContext(ctx, st)
}

func (t *Tx) finish() {
	if t.done {
		return
	}
	t.done = true
	if t.p.Sched != nil {
		if t.p.Bound > 0 {
			t.p.dropSlot()
		}
		if t.token {
			t.p.dropToken()
		}
	}
}

func (t *Tx) Commit() error {
	t.p.enter("commit")
	if t.p.RefuseCommit {
		// a wrapper that fails before it delegates (a limiter, a tracer that checks its
		// own state first): the transaction is not finished by this call
		t.p.RefusedCommits++
		t.p.record(Event{Kind: "commit", Err: ErrCommitRefused.Error(), InTx: true, Note: "refused"})
		t.p.leave("commit")
		return ErrCommitRefused
	}
	t.waitWatcher()
	err := t.tx.Commit()
	t.p.record(Event{Kind: "commit", Err: errStr(err), InTx: true})
	t.finish()
	t.p.leave("commit")
	return err
}

func (t *Tx) Rollback() error {
	t.p.enter("rollback")
	t.waitWatcher()
	err := t.tx.Rollback()
	t.p.record(Event{Kind: "rollback", Err: errStr(err), InTx: true})
	t.finish()
	t.p.leave("rollback")
	return err
}

// waitWatcher: when the transaction's context has been cancelled, database/sql's
// watcher goroutine rolls the transaction back asynchronously.  Wait (bounded,
// real time) until it has, so that the order of driver events is fixed.
func (t *Tx) waitWatcher() {
	if t.ctx == nil || t.ctx.Err() == nil {
		return
	}
	deadline := time.Now().Add(2 * time.Second)
	for time.Now().Before(deadline) {
		if t.p.Drv.AsyncCount("rollback") > 0 {
			return
		}
		time.Sleep(50 * time.Microsecond)
	}
}
