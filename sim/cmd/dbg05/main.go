package main

import (
	"encoding/json"
	"fmt"
	"os"
	"strconv"

	"verif/sim/core"
	"verif/sim/props/c05"
)

// scratch tool: prints the generated C05 case of a case seed and the sorted trace parts of its fault-free run
func main() {
	seed, _ := strconv.ParseInt(os.Args[1], 10, 64)
	p := c05.Prop{}
	c := p.Gen(core.NewRand(seed), "quick")
	b, _ := json.Marshal(c)
	fmt.Println(string(b))
	for _, l := range c05.DebugParts(c) {
		fmt.Println(l)
	}
}
