package main

import (
	"context"
	"fmt"

	"verif/sim/env"
	"verif/sim/fam"
	"verif/sim/ops"
)

// scratch tool: a before-hook writes a marker through tx.WithContext(ctx)
func main() {
	type k struct{}
	action := func(hc fam.HookCall, ev *ops.HookEvent) error {
		if hc.Hook == "BeforeSave" && hc.Model == "User" {
			w := hc.Tx.WithContext(context.WithValue(hc.Tx.Statement.Context, k{}, "hook"))
			r := w.Create(&fam.Marker{Text: "m"})
			fmt.Println("marker create: err", r.Error, "rows", r.RowsAffected)
		}
		return nil
	}
	sr, err := ops.RunSingle(env.Options{}, nil, action, func(e *env.Env) ops.Result {
		u := &fam.User{Name: "x"}
		r := e.DB.Create(u)
		return ops.Result{Err: r.Error}
	})
	if err != nil {
		panic(err)
	}
	for _, ev := range sr.Events {
		if ev.Kind == "exec" || ev.Kind == "query" || ev.Kind == "begin" || ev.Kind == "commit" || ev.Kind == "rollback" {
			fmt.Println(ev.Seq, ev.Kind, ev.SQL, ev.Err)
		}
	}
	fmt.Println("err", sr.Res.Err, "leak:", sr.Leak())
}
