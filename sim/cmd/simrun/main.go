// simrun is the worker binary: it explores one property from one seed, or
// replays one violation file.
package main

import (
	"encoding/json"
	"flag"
	"fmt"
	"os"
	"os/exec"
	"path/filepath"
	"sync/atomic"
	"time"

	"verif/sim/core"
	"verif/sim/env"
	"verif/sim/props/c04"
	"verif/sim/props/c05"
	"verif/sim/props/c06"
	"verif/sim/props/c07"
	"verif/sim/props/c13"
	"verif/sim/props/c14"
	"verif/sim/props/c18"
	"verif/sim/sched"
)

func props() map[string]core.Prop {
	return map[string]core.Prop{
		"C04": c04.Prop{},
		"C05": c05.Prop{},
		"C06": c06.Prop{},
		"C07": c07.Prop{},
		"C13": c13.Prop{},
		"C14": c14.Prop{},
		"C18": c18.Prop{},
	}
}

func main() {
	var (
		prop   = flag.String("prop", "", "property id")
		seed   = flag.Int64("seed", 1, "VERIF_SEED")
		worker = flag.Int("worker", 0, "worker index")
		tier   = flag.String("tier", "quick", "quick|thorough")
		cases  = flag.Int("cases", 50, "maximum number of cases")
		budget = flag.Duration("budget", time.Minute, "wall-clock budget")
		out    = flag.String("out", "", "partial result file")
		rdir   = flag.String("replays", "/verif/replays", "replay directory")
		replay = flag.String("replay", "", "replay a violation file")
		desc   = flag.Bool("describe", false, "print level, rule and assumptions as JSON")
		known  = flag.String("known", "/verif/known_findings.jsonl", "known findings file")
	)
	flag.Parse()
	c07.RaceBuild = raceEnabled
	core.RaceBuild = raceEnabled
	p, ok := props()[*prop]
	if !ok {
		fmt.Fprintf(os.Stderr, "unknown property %q\n", *prop)
		os.Exit(2)
	}
	if *desc {
		b, _ := json.Marshal(map[string]interface{}{"level": p.Level(), "rule": p.Rule(), "assumptions": p.Assumptions()})
		fmt.Println(string(b))
		return
	}
	if err := core.LoadKnown(*known, *prop); err != nil {
		fmt.Fprintln(os.Stderr, "known findings:", err)
		os.Exit(2)
	}
	if *replay != "" {
		if raceEnabled {
			p = &racedProp{Prop: p, w: newRaceWatcher()}
		}
		os.Exit(doReplay(p, *replay))
	}
	cfg := core.WorkerConfig{Seed: *seed, Worker: *worker, Tier: *tier, MaxCases: *cases, Budget: *budget, ReplayDir: *rdir, Out: *out, Race: raceEnabled}
	cfg.Extra = func() map[string]int64 {
		return map[string]int64{"simulated_clock_seconds": env.TotalTicks}
	}
	if raceEnabled {
		p = &racedProp{Prop: p, w: newRaceWatcher()}
		cfg.External = externalTry(*prop, *known)
	}
	part, err := core.RunWorker(p, cfg)
	if err != nil {
		fmt.Fprintln(os.Stderr, "worker:", err)
		os.Exit(2)
	}
	fmt.Fprintf(os.Stderr, "[%s w%d] cases=%d runs=%d distinct=%d violations=%d trouble=%d wall=%.1fs\n", p.ID(), *worker, part.Cases, part.Runs, len(part.Hashes), len(part.Violations), len(part.Trouble), part.WallS)
	if len(part.Trouble) > 0 {
		os.Exit(2)
	}
}

// doReplay re-executes a recorded case in this fresh process: exit 1 when the
// same violation (class and key) and the same trace hash reproduce, 0 when the
// case passes, 2 otherwise.
func doReplay(p core.Prop, path string) int {
	rp, err := core.ReadReplay(path)
	if err != nil {
		fmt.Fprintln(os.Stderr, "replay:", err)
		return 2
	}
	c, err := p.Decode(rp.Case)
	if err != nil {
		fmt.Fprintln(os.Stderr, "replay decode:", err)
		return 2
	}
	o := p.Run(c, &rp.Violation)
	res := map[string]interface{}{"property": p.ID(), "trace_hash": o.TraceHash, "expected_trace_hash": rp.TraceHash, "trouble": o.Trouble}
	code := 0
	if o.Trouble != "" {
		code = 2
	} else if o.Violation != nil {
		res["violation"] = o.Violation
		if o.Violation.Class == rp.Violation.Class && o.Violation.Key == rp.Violation.Key && (o.TraceHash == rp.TraceHash || rp.TraceHash == "*") {
			res["reproduced"] = true
			code = 1
		} else {
			res["reproduced"] = false
			code = 3
		}
	}
	b, _ := json.MarshalIndent(res, "", " ")
	fmt.Println(string(b))
	return code
}

// racedProp adds the race detector's verdict to a property's own oracles.
type racedProp struct {
	core.Prop
	w *raceWatcher
}

func (r *racedProp) Run(c interface{}, focus *core.Violation) *core.Outcome {
	free0 := atomic.LoadInt64(&sched.FreeRuns)
	o := r.Prop.Run(c, focus)
	viols, noise := r.w.check()
	if atomic.LoadInt64(&sched.FreeRuns) != free0 {
		// the watchdog released the tasks to run side by side for real: no verdict from the detector for this run
		o.Count("race_reports_dropped_after_free_run", int64(len(viols)+len(noise)))
		return o
	}
	for _, n := range noise {
		o.Count("race_reports_without_gorm_access", 1)
		fmt.Fprintln(os.Stderr, "NOTE:", n)
	}
	for _, v := range viols {
		o.Count("race_reports_with_gorm_access", 1)
		if focus != nil {
			// replay / shrinking: the detector reports one pair per address and stack
			// per process, and which pair comes first depends on the process's history;
			// a report that shares a racing function with the recorded one reproduces it
			if focus.Class == v.Class && sharesFunction(focus.Key, v.Key) && o.Violation == nil {
				o.Violation = &core.Violation{Class: v.Class, Key: focus.Key, Detail: v.Detail}
			}
			continue
		}
		if core.KnownIndex(v) >= 0 {
			o.Report(v, nil, o.TraceHash) // counted as a known finding
			continue
		}
		if o.Violation == nil {
			o.Violation = v
		} else {
			o.Extra = append(o.Extra, v)
		}
	}
	return o
}

// externalTry runs a shrink candidate in a fresh process (the race detector
// reports a pair of stacks once per process).
func externalTry(prop, known string) func(c interface{}, v *core.Violation, traceHash string) (bool, string) {
	return func(c interface{}, v *core.Violation, traceHash string) (bool, string) {
		dir, err := os.MkdirTemp("", "simshrink")
		if err != nil {
			return false, ""
		}
		defer os.RemoveAll(dir)
		raw, _ := json.Marshal(c)
		rp := core.Replay{Property: prop, Violation: *v, TraceHash: "*", Case: raw}
		b, _ := json.Marshal(rp)
		path := filepath.Join(dir, "cand.json")
		os.WriteFile(path, b, 0o644)
		cmd := exec.Command(os.Args[0], "-prop", prop, "-replay", path, "-known", known)
		cmd.Env = append(os.Environ(), "GORACE=log_path="+filepath.Join(dir, "race")+" halt_on_error=0 exitcode=0")
		outb, _ := cmd.Output()
		if cmd.ProcessState == nil || cmd.ProcessState.ExitCode() != 1 {
			return false, ""
		}
		var res struct {
			TraceHash string `json:"trace_hash"`
		}
		json.Unmarshal(outb, &res)
		return true, res.TraceHash
	}
}
