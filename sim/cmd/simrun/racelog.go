package main

import (
	"fmt"
	"os"
	"path/filepath"
	"sort"
	"strings"

	"verif/sim/core"
)

// raceWatcher turns new race-detector reports (GORACE=log_path=…) into violations.
type raceWatcher struct {
	prefix string
	offset int64
	last   int
}

func newRaceWatcher() *raceWatcher {
	w := &raceWatcher{}
	for _, kv := range strings.Fields(os.Getenv("GORACE")) {
		if strings.HasPrefix(kv, "log_path=") {
			w.prefix = strings.TrimPrefix(kv, "log_path=")
		}
	}
	return w
}

type access struct {
	kind   string // read / write
	frames []string
}

type raceReport struct {
	acc  [2]access
	text string
}

func isStd(fn string) bool {
	if strings.HasPrefix(fn, "gorm.io/") || strings.HasPrefix(fn, "verif/") || strings.HasPrefix(fn, "github.com/") {
		return false
	}
	return true
}

// gormFrame returns the innermost gorm function of a stack, "" if the first
// non-standard-library frame is not gorm code.
func gormFrame(frames []string) string {
	for _, f := range frames {
		if isStd(f) {
			continue
		}
		if strings.HasPrefix(f, "gorm.io/gorm") && !strings.Contains(f, "utils/simhook") && !strings.Contains(f, "gorm.io/driver") {
			return strings.TrimPrefix(f, "gorm.io/gorm/")
		}
		return "" // first non-standard-library frame is simulator code (harness, scheduler, simhook forwarding)
	}
	return ""
}

func parseReports(text string) []raceReport {
	var out []raceReport
	for _, block := range strings.Split(text, "==================") {
		if !strings.Contains(block, "WARNING: DATA RACE") {
			continue
		}
		r := raceReport{text: block}
		n := 0
		lines := strings.Split(block, "\n")
		for i := 0; i < len(lines) && n < 2; i++ {
			l := lines[i]
			low := strings.ToLower(l)
			if !(strings.Contains(low, " at 0x") && strings.Contains(low, "by ")) {
				continue
			}
			a := access{kind: "read"}
			if strings.Contains(low, "write") {
				a.kind = "write"
			}
			for j := i + 1; j < len(lines); j++ {
				fl := lines[j]
				if strings.TrimSpace(fl) == "" {
					break
				}
				if strings.HasPrefix(fl, "  ") && !strings.HasPrefix(fl, "      ") {
					fn := strings.TrimSpace(fl)
					if k := strings.LastIndex(fn, "("); k > 0 && strings.HasSuffix(fn, ")") {
						fn = fn[:k]
					}
					a.frames = append(a.frames, fn)
				}
			}
			r.acc[n] = a
			n++
		}
		if n == 2 {
			out = append(out, r)
		}
	}
	return out
}

// check reads reports appended since the last call and returns violations for
// races with an access in gorm code, plus simulator-noise notes.
func (w *raceWatcher) check() (viol []*core.Violation, noise []string) {
	n := raceErrors()
	if n == w.last {
		return nil, nil
	}
	w.last = n
	if w.prefix == "" {
		return []*core.Violation{{Class: "data_race", Key: "unparsed", Detail: "race detector reported, but GORACE log_path is not set"}}, nil
	}
	matches, _ := filepath.Glob(fmt.Sprintf("%s.%d", w.prefix, os.Getpid()))
	if len(matches) == 0 {
		return nil, []string{"race detector reported but no log file found"}
	}
	b, err := os.ReadFile(matches[0])
	if err != nil || int64(len(b)) <= w.offset {
		return nil, nil
	}
	text := string(b[w.offset:])
	w.offset = int64(len(b))
	for _, r := range parseReports(text) {
		a, b := gormFrame(r.acc[0].frames), gormFrame(r.acc[1].frames)
		if a == "" && b == "" {
			noise = append(noise, "race report without gorm access: "+firstLines(r.text, 14))
			continue
		}
		if a == "" {
			a = "(outside gorm)"
		}
		if b == "" {
			b = "(outside gorm)"
		}
		// the key is the unordered pair of innermost gorm functions; access kinds are not
		// part of it (which of several racing accesses to one address the detector
		// reports first depends on what it reported earlier in the process)
		pair := []string{a, b}
		sort.Strings(pair)
		viol = append(viol, &core.Violation{Class: "data_race", Key: pair[0] + " / " + pair[1], Detail: firstLines(r.text, 40)})
	}
	return viol, noise
}

func firstLines(s string, n int) string {
	l := strings.Split(strings.TrimSpace(s), "\n")
	if len(l) > n {
		l = l[:n]
	}
	return strings.Join(l, "\n")
}

// sharesFunction reports whether two race keys ("f / g") have a function in common.
func sharesFunction(k1, k2 string) bool {
	for _, a := range strings.Split(k1, " / ") {
		for _, b := range strings.Split(k2, " / ") {
			if a == b && a != "(outside gorm)" {
				return true
			}
		}
	}
	return false
}
