//go:build !race

package main

const raceEnabled = false

func raceErrors() int { return 0 }
