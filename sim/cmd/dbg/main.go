package main

import (
	"fmt"
	"os"
	"strings"

	"verif/sim/core"
	"verif/sim/props/c07"
)

func main() {
	p := c07.Prop{}
	rp, err := core.ReadReplay(os.Args[1])
	if err != nil {
		panic(err)
	}
	c, _ := p.Decode(rp.Case)
	o := p.Run(c, nil)
	fmt.Println(o.Trouble, o.Violation)
	s := fmt.Sprint(o.Sample)
	fmt.Println(len(s), strings.Count(fmt.Sprint(o.Counters), "valuepool"), o.Counters)
}
