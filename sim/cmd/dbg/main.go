package main

import (
	"encoding/json"
	"fmt"
	"os"
	"strconv"

	"verif/sim/core"
	"verif/sim/props/c14"
)

func main() {
	p := c14.Prop{}
	var c interface{}
	var focus *core.Violation
	if n, err := strconv.ParseInt(os.Args[1], 10, 64); err == nil {
		c = p.Gen(core.NewRand(n), "quick")
	} else {
		rp, err := core.ReadReplay(os.Args[1])
		if err != nil {
			panic(err)
		}
		c, _ = p.Decode(rp.Case)
		focus = &rp.Violation
	}
	b, _ := json.Marshal(c)
	fmt.Println("CASE", string(b))
	c14.Debug = true
	o := p.Run(c, focus)
	b, _ = json.MarshalIndent(o.Violation, "", " ")
	fmt.Println(o.Trouble, string(b))
}
