package main

import (
	"fmt"
	"os"

	"verif/sim/core"
	"verif/sim/props/c07"
)

func main() {
	p := c07.Prop{}
	rp, err := core.ReadReplay(os.Args[1])
	if err != nil {
		panic(err)
	}
	c, _ := p.Decode(rp.Case)
	c07.Debug = true
	o := p.Run(c, nil)
	fmt.Println(o.Trouble, o.Violation, o.Counters)
}
