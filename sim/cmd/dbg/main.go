package main

import (
	"encoding/json"
	"fmt"
	"os"

	"verif/sim/core"
	"verif/sim/env"
	"verif/sim/ops"
)

// scratch tool: runs the write operation of a C13/C05 replay file and prints hooks and statements in order
func main() {
	rp, err := core.ReadReplay(os.Args[1])
	if err != nil {
		panic(err)
	}
	var c struct {
		W  *ops.WOp `json:"write"`
		Op *ops.WOp `json:"op"`
		Tx bool     `json:"explicit_tx"`
	}
	json.Unmarshal(rp.Case, &c)
	w := c.W
	if w == nil {
		w = c.Op
	}
	sr, err := ops.RunSingle(env.Options{}, nil, nil, func(e *env.Env) ops.Result {
		if c.Tx {
			tx := e.DB.Begin()
			r := w.Exec(tx)
			if r.Err == nil {
				tx.Commit()
			} else {
				tx.Rollback()
			}
			return r
		}
		return w.Exec(e.DB)
	})
	if err != nil {
		panic(err)
	}
	type item struct {
		seq int64
		s   string
	}
	var items []item
	for _, h := range sr.Hooks {
		items = append(items, item{h.Seq, fmt.Sprintf("HOOK %s.%s %s intx=%v", h.Model, h.Hook, h.Rec, h.InTx)})
	}
	for _, ev := range sr.Events {
		if ev.Kind == "exec" || ev.Kind == "query" || ev.Kind == "begin" || ev.Kind == "commit" {
			items = append(items, item{ev.Seq, fmt.Sprintf("SQL  %s %s %v", ev.Kind, ev.SQL, ev.Args)})
		}
	}
	for i := range items {
		for j := i + 1; j < len(items); j++ {
			if items[j].seq < items[i].seq {
				items[i], items[j] = items[j], items[i]
			}
		}
	}
	for _, it := range items {
		fmt.Println(it.seq, it.s)
	}
	fmt.Println("err:", sr.Res.Err)
}
