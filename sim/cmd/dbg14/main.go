package main

import (
	"fmt"
	"os"

	"verif/sim/core"
	"verif/sim/props/c14"
)

// scratch tool: replays a C14 case with the per-run trace printed
func main() {
	p := c14.Prop{}
	rp, err := core.ReadReplay(os.Args[1])
	if err != nil {
		panic(err)
	}
	c, _ := p.Decode(rp.Case)
	c14.Debug = true
	o := p.Run(c, nil)
	fmt.Println(o.Trouble, o.Violation)
}
