// Package core holds what every property check shares: the seeded choice
// source, the case/outcome types, the shrinker, replay files and the worker
// loop that turns (property, seed, budget) into a partial evidence file.
package core

import (
	"crypto/sha256"
	"encoding/hex"
	"encoding/json"
	"fmt"
	"math/rand"
	"os"
	"path/filepath"
	"sort"
	"strings"
	"time"
)

// Rand is the only source of choices: one per case, seeded from VERIF_SEED.
type Rand struct{ r *rand.Rand }

func NewRand(seed int64) *Rand    { return &Rand{rand.New(rand.NewSource(seed))} }
func (r *Rand) Intn(n int) int    { return r.r.Intn(n) }
func (r *Rand) Bool() bool        { return r.r.Intn(2) == 0 }
func (r *Rand) Chance(p int) bool { return r.r.Intn(100) < p } // p percent
func (r *Rand) Range(lo, hi int) int {
	if hi <= lo {
		return lo
	}
	return lo + r.r.Intn(hi-lo+1)
}
func (r *Rand) Int63() int64            { return r.r.Int63() }
func (r *Rand) Perm(n int) []int        { return r.r.Perm(n) }
func (r *Rand) Pick(xs []string) string { return xs[r.r.Intn(len(xs))] }

// Violation describes one failed oracle.
type Violation struct {
	Class  string `json:"class"`  // oracle that failed (stable identifier)
	Key    string `json:"key"`    // specific signature, matched against known_findings.jsonl
	Detail string `json:"detail"` // human-readable explanation
}

// Outcome is what one simulated run (or one enumerated batch of runs) reports.
type Outcome struct {
	Violation  *Violation
	Trouble    string             // simulator trouble (never a violation): watchdog, engine lock, …
	Runs       int                // simulated executions performed for this case
	Hashes     []string           // hashes of distinct non-trivial executions
	Counters   map[string]int64   // fault kinds fired/delivered, probes, yields …
	TraceHash  string             // normalised trace hash of the violating (or last) execution
	Sample     interface{}        // a written-out view of the case for the evidence file
	Extra      []*Violation       // further, different violations observed in the same run (race reports)
	KnownHits  map[int]int        // index into Known -> occurrences in this case
	KnownFirst map[int]*Violation // first occurrence per known finding
}

// Finding is one line of /verif/known_findings.jsonl.
type Finding struct {
	Status    string `json:"status"` // "known" or "fixed"
	Property  string `json:"property"`
	Class     string `json:"class,omitempty"`
	KeyPrefix string `json:"key_prefix,omitempty"`
	// KeyContains: with an empty KeyPrefix, the finding covers every key that
	// contains one of these substrings (call sites, e.g. the functions that write
	// into a schema other goroutines already hold)
	KeyContains []string `json:"key_contains,omitempty"`
	What        string   `json:"what"`
	Commit      string   `json:"commit,omitempty"`
}

// RaceBuild is set by race-detector builds of the worker (they run an order of magnitude slower).
var RaceBuild bool

// Known is the list of known findings (status "known" only) for the property being run.
var Known []Finding

// LoadKnown reads the findings file; a missing file means no findings.
func LoadKnown(path, prop string) error {
	Known = nil
	b, err := os.ReadFile(path)
	if err != nil {
		if os.IsNotExist(err) {
			return nil
		}
		return err
	}
	for _, line := range strings.Split(string(b), "\n") {
		line = strings.TrimSpace(line)
		if line == "" || strings.HasPrefix(line, "#") {
			continue
		}
		var f Finding
		if err := json.Unmarshal([]byte(line), &f); err != nil {
			return fmt.Errorf("%s: %v", path, err)
		}
		if f.Status == "known" && f.Property == prop {
			Known = append(Known, f)
		}
	}
	return nil
}

// KnownIndex returns the index of the known finding that lists v, or -1.
func KnownIndex(v *Violation) int {
	for i, f := range Known {
		if f.Class != v.Class {
			continue
		}
		if len(f.KeyContains) > 0 && f.KeyPrefix == "" {
			for _, sub := range f.KeyContains {
				if strings.Contains(v.Key, sub) {
					return i
				}
			}
			continue
		}
		if strings.HasPrefix(v.Key, f.KeyPrefix) {
			return i
		}
	}
	return -1
}

// Report records a violation found during a run.  It returns true when the run
// must stop and return it: the violation is not a listed finding, or it is the
// one being replayed/shrunk.  Listed findings are counted and the run goes on,
// so that a known defect cannot hide a different violation in the same case.
func (o *Outcome) Report(v *Violation, focus *Violation, traceHash string) bool {
	if focus != nil {
		if sameViolation(v, focus) {
			o.Violation, o.TraceHash = v, traceHash
			return true
		}
		if KnownIndex(v) >= 0 {
			return false
		}
		o.Violation, o.TraceHash = v, traceHash
		return true
	}
	if i := KnownIndex(v); i >= 0 {
		if o.KnownHits == nil {
			o.KnownHits = map[int]int{}
		}
		o.KnownHits[i]++
		if o.KnownFirst == nil {
			o.KnownFirst = map[int]*Violation{}
		}
		if o.KnownFirst[i] == nil {
			o.KnownFirst[i] = v
		}
		return false
	}
	o.Violation, o.TraceHash = v, traceHash
	return true
}

func (o *Outcome) Count(k string, n int64) {
	if o.Counters == nil {
		o.Counters = map[string]int64{}
	}
	o.Counters[k] += n
}

// Prop is one property check.
type Prop interface {
	ID() string
	Level() string
	Rule() string
	Assumptions() []string
	// Gen draws a case; everything random in a run is decided here.
	Gen(r *Rand, tier string) interface{}
	// Run executes a case against the real code.  focus is the violation being
	// shrunk/replayed (nil during exploration); implementations may use it to
	// skip enumeration steps that cannot reproduce it.
	Run(c interface{}, focus *Violation) *Outcome
	// Shrink proposes strictly smaller variants of a case.
	Shrink(c interface{}) []interface{}
	Decode(raw json.RawMessage) (interface{}, error)
}

// Replay is the on-disk form of a violation.
type Replay struct {
	Property  string          `json:"property"`
	Seed      int64           `json:"seed"`
	CaseSeed  int64           `json:"case_seed"`
	Violation Violation       `json:"violation"`
	TraceHash string          `json:"trace_hash"`
	Case      json.RawMessage `json:"case"`
}

// Partial is what one worker writes.
type Partial struct {
	Property   string            `json:"property"`
	Seed       int64             `json:"seed"`
	Worker     int               `json:"worker"`
	Race       bool              `json:"race"`
	Cases      int               `json:"cases"`
	Runs       int               `json:"runs"`
	Hashes     []string          `json:"hashes"`
	Counters   map[string]int64  `json:"counters"`
	Samples    []interface{}     `json:"samples"`
	Violations []ReplayRef       `json:"violations"`
	KnownHits  map[string]int    `json:"known_hits"` // finding "what" -> occurrences
	KnownDemo  map[string]string `json:"known_demo"` // finding "what" -> example
	Trouble    []string          `json:"trouble"`
	TraceLog   []string          `json:"trace_log,omitempty"` // with VERIF_TRACELOG=1: "case_seed trace_hash" per case (determinism self-test)
	WallS      float64           `json:"wall_s"`
}

type ReplayRef struct {
	Violation Violation `json:"violation"`
	Path      string    `json:"path"`
	Count     int       `json:"count"`
}

func Hash(parts ...string) string {
	h := sha256.New()
	for _, p := range parts {
		h.Write([]byte(p))
		h.Write([]byte{0})
	}
	return hex.EncodeToString(h.Sum(nil))[:16]
}

func sameViolation(a, b *Violation) bool {
	return a != nil && b != nil && a.Class == b.Class && a.Key == b.Key
}

// ShrinkCase greedily minimises c while the same violation (class and key) persists.
func ShrinkCase(p Prop, c interface{}, v *Violation, budget time.Duration) (interface{}, *Outcome, int) {
	deadline := time.Now().Add(budget)
	best := c
	bestOut := (*Outcome)(nil)
	steps := 0
	for improved := true; improved && time.Now().Before(deadline); {
		improved = false
		for _, cand := range p.Shrink(best) {
			if time.Now().After(deadline) {
				break
			}
			steps++
			o := p.Run(cand, v)
			if o.Trouble == "" && sameViolation(o.Violation, v) {
				best, bestOut, improved = cand, o, true
				break
			}
		}
	}
	return best, bestOut, steps
}

// shrinkExternal minimises c with every candidate evaluated in a fresh process.
func shrinkExternal(p Prop, c interface{}, o *Outcome, try func(interface{}, *Violation, string) (bool, string), budget time.Duration) (interface{}, *Outcome) {
	deadline := time.Now().Add(budget)
	best := c
	bestOut := &Outcome{Violation: o.Violation, TraceHash: o.TraceHash}
	// the unshrunk case must itself reproduce in a fresh process
	if ok, h := try(c, o.Violation, o.TraceHash); ok {
		bestOut.TraceHash = h
	}
	for improved := true; improved && time.Now().Before(deadline); {
		improved = false
		for _, cand := range p.Shrink(best) {
			if time.Now().After(deadline) {
				break
			}
			if ok, h := try(cand, o.Violation, ""); ok {
				best, improved = cand, true
				bestOut = &Outcome{Violation: o.Violation, TraceHash: h}
				break
			}
		}
	}
	return best, bestOut
}

// WorkerConfig drives RunWorker.
type WorkerConfig struct {
	Seed      int64
	Worker    int
	Tier      string
	MaxCases  int
	Budget    time.Duration
	ReplayDir string
	Out       string
	Race      bool
	// PostRun, when set, is called after every Run (race binaries use it to
	// turn new race-detector reports into violations).
	PostRun func(c interface{}, o *Outcome)
	// Extra, when set, returns process-wide counters to add to the partial result at the end.
	Extra func() map[string]int64
	// NoShrinkInProcess: violations are only written out unshrunk (race binaries
	// shrink in fresh processes, driven by the orchestrator).
	NoShrinkInProcess bool
	// External, when set, evaluates a shrink candidate in a fresh process and
	// reports whether the same violation reproduced, and its trace hash.
	External func(c interface{}, v *Violation, traceHash string) (bool, string)
}

// currentCasePath names the file that holds the case a worker is running.
func currentCasePath(cfg WorkerConfig, prop string) string {
	if cfg.ReplayDir == "" {
		return ""
	}
	return fmt.Sprintf("%s/%s-%d-w%d.current.json", cfg.ReplayDir, prop, cfg.Seed, cfg.Worker)
}

func RunWorker(p Prop, cfg WorkerConfig) (*Partial, error) {
	start := time.Now()
	part := &Partial{Property: p.ID(), Seed: cfg.Seed, Worker: cfg.Worker, Race: cfg.Race, Counters: map[string]int64{}}
	hashes := map[string]bool{}
	seen := map[string]*ReplayRef{}
	fmt.Fprintf(os.Stderr, "[%s w%d] VERIF_SEED=%d tier=%s\n", p.ID(), cfg.Worker, cfg.Seed, cfg.Tier)
	for i := 0; i < cfg.MaxCases && time.Since(start) < cfg.Budget; i++ {
		caseSeed := cfg.Seed*1000003 + int64(cfg.Worker)*100003 + int64(i)
		c := p.Gen(NewRand(caseSeed), cfg.Tier)
		// the case about to run, for the orchestrator: if the code under test
		// kills this process (a runtime "fatal error", e.g. an unlock of an
		// unlocked mutex, cannot be recovered), this file is the replay of the crash
		if cur := currentCasePath(cfg, p.ID()); cur != "" {
			if raw, err := json.Marshal(c); err == nil {
				b, _ := json.Marshal(Replay{Property: p.ID(), Seed: cfg.Seed, CaseSeed: caseSeed, Violation: Violation{Class: "crash", Key: "*"}, TraceHash: "*", Case: raw})
				os.WriteFile(cur, b, 0o644)
			}
		}
		o := p.Run(c, nil)
		if cfg.PostRun != nil {
			cfg.PostRun(c, o)
		}
		part.Cases++
		if os.Getenv("VERIF_TRACELOG") != "" {
			hs := append([]string{}, o.Hashes...)
			sort.Strings(hs)
			vk := ""
			if o.Violation != nil {
				vk = o.Violation.Class + "|" + o.Violation.Key
			}
			part.TraceLog = append(part.TraceLog, fmt.Sprintf("%d %s %d %s %s", caseSeed, o.TraceHash, o.Runs, Hash(hs...), vk))
		}
		part.Runs += o.Runs
		for _, h := range o.Hashes {
			hashes[h] = true
		}
		for k, n := range o.Counters {
			part.Counters[k] += n
		}
		if len(part.Samples) < 3 && o.Sample != nil {
			part.Samples = append(part.Samples, o.Sample)
		}
		for i, n := range o.KnownHits {
			if part.KnownHits == nil {
				part.KnownHits, part.KnownDemo = map[string]int{}, map[string]string{}
			}
			w := Known[i].What
			part.KnownHits[w] += n
			if _, ok := part.KnownDemo[w]; !ok {
				part.KnownDemo[w] = fmt.Sprintf("case_seed=%d key=%s: %s", caseSeed, o.KnownFirst[i].Key, o.KnownFirst[i].Detail)
			}
		}
		if o.Trouble != "" {
			part.Trouble = append(part.Trouble, fmt.Sprintf("case_seed=%d: %s", caseSeed, o.Trouble))
			if len(part.Trouble) > 20 {
				break
			}
			continue
		}
		if o.Violation == nil {
			continue
		}
		stop := false
		for _, v := range append([]*Violation{o.Violation}, o.Extra...) {
			k := v.Class + "|" + v.Key
			if ref, ok := seen[k]; ok {
				ref.Count++
				continue
			}
			vo := &Outcome{Violation: v, TraceHash: o.TraceHash}
			best, bestOut := c, vo
			if os.Getenv("VERIF_NOSHRINK") != "" {
				// enumeration sweeps: keep the unshrunk case
			} else if cfg.External != nil {
				best, bestOut = shrinkExternal(p, c, vo, cfg.External, 90*time.Second)
			} else if !cfg.NoShrinkInProcess {
				sc, so, _ := ShrinkCase(p, c, v, 60*time.Second)
				if so != nil {
					best, bestOut = sc, so
				}
			}
			path, err := WriteReplay(cfg.ReplayDir, p.ID(), cfg.Seed, caseSeed, best, bestOut)
			if err != nil {
				return nil, err
			}
			seen[k] = &ReplayRef{Violation: *bestOut.Violation, Path: path, Count: 1}
			if len(seen) >= 40 {
				stop = true
			}
		}
		if stop {
			break
		}
	}
	keys := make([]string, 0, len(seen))
	for k := range seen {
		keys = append(keys, k)
	}
	sort.Strings(keys)
	for _, k := range keys {
		part.Violations = append(part.Violations, *seen[k])
	}
	for h := range hashes {
		part.Hashes = append(part.Hashes, h)
	}
	sort.Strings(part.Hashes)
	if cfg.Extra != nil {
		for k, n := range cfg.Extra() {
			part.Counters[k] += n
		}
	}
	if cur := currentCasePath(cfg, p.ID()); cur != "" {
		os.Remove(cur)
	}
	part.WallS = time.Since(start).Seconds()
	if cfg.Out != "" {
		b, _ := json.Marshal(part)
		if err := os.WriteFile(cfg.Out, b, 0o644); err != nil {
			return nil, err
		}
	}
	return part, nil
}

func WriteReplay(dir, prop string, seed, caseSeed int64, c interface{}, o *Outcome) (string, error) {
	raw, err := json.Marshal(c)
	if err != nil {
		return "", err
	}
	rp := Replay{Property: prop, Seed: seed, CaseSeed: caseSeed, Violation: *o.Violation, TraceHash: o.TraceHash, Case: raw}
	b, _ := json.MarshalIndent(rp, "", " ")
	if err := os.MkdirAll(dir, 0o755); err != nil {
		return "", err
	}
	name := fmt.Sprintf("%s-%d-%s.json", prop, seed, Hash(o.Violation.Class, o.Violation.Key))
	path := filepath.Join(dir, name)
	return path, os.WriteFile(path, b, 0o644)
}

func ReadReplay(path string) (*Replay, error) {
	b, err := os.ReadFile(path)
	if err != nil {
		return nil, err
	}
	var rp Replay
	if err := json.Unmarshal(b, &rp); err != nil {
		return nil, err
	}
	return &rp, nil
}
