// Package simnamer wraps gorm's NamingStrategy so that every call made during
// schema parsing is a yield point of the simulator.
package simnamer

import (
	"gorm.io/gorm/schema"
)

type Namer struct {
	schema.NamingStrategy
	Yield func(point string)
}

func (n Namer) y(p string) {
	if n.Yield != nil {
		n.Yield(p)
	}
}

func (n Namer) TableName(table string) string {
	n.y("namer:table")
	return n.NamingStrategy.TableName(table)
}
func (n Namer) ColumnName(table, column string) string {
	// one yield per parsed model (its key column), inside the window between the
	// second cache look-up and LoadOrStore: lets two first users of one model
	// both parse it and race for the store
	if column == "ID" || column == "Code" || column == "K" {
		n.y("namer:column")
	}
	return n.NamingStrategy.ColumnName(table, column)
}
func (n Namer) JoinTableName(joinTable string) string {
	n.y("namer:join")
	return n.NamingStrategy.JoinTableName(joinTable)
}
func (n Namer) RelationshipFKName(r schema.Relationship) string {
	n.y("namer:fk")
	return n.NamingStrategy.RelationshipFKName(r)
}
func (n Namer) CheckerName(table, column string) string {
	return n.NamingStrategy.CheckerName(table, column)
}
func (n Namer) IndexName(table, column string) string {
	return n.NamingStrategy.IndexName(table, column)
}
func (n Namer) UniqueName(table, column string) string {
	return n.NamingStrategy.UniqueName(table, column)
}
func (n Namer) SchemaName(table string) string { return n.NamingStrategy.SchemaName(table) }
