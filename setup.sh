#!/bin/sh
# Builds the simulation worker (plain and race) once so that later checks only
# pay for an incremental rebuild.  Offline: uses only the module cache.
set -e
cd "$(dirname "$0")/sim"
. ./env.sh
cp -n /repo/tests/go.sum go.sum 2>/dev/null || true
mkdir -p ../.build
go build -tags verif -o ../.build/simrun ./cmd/simrun
go build -race -tags verif -o ../.build/simrun.race ./cmd/simrun
echo setup ok
