#!/bin/sh
# Builds the simulation worker (plain and -race, the latter with its source overlay)
# once so that later checks only pay for an incremental rebuild.  Offline: uses only
# the module cache and the installed Go toolchain.
set -e
cd "$(dirname "$0")"
./check C07 --build-only
echo setup ok
