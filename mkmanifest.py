#!/usr/bin/env python3
"""Regenerates MANIFEST.json from the table below (single place to edit)."""
import json

NA = {
"C01":"Bound-parameter discipline is a pure function of (chain, argument values, dialect placeholder style); no schedule, fault, clock or shared state enters the statement, so there is nothing for a simulator to decide.",
"C02":"The selected row set is a pure function of (condition tree and its rendering, table contents); deciding it is input generation against a predicate evaluator, not simulation.",
"C03":"Round-tripping is a pure function of (model type, field values, RETURNING on/off); no interleaving or failure is part of the statement.",
"C08":"Visibility of soft-deleted rows is a pure function of (chain, table history); the history is an input sequence with no fault, schedule or shared actor in the statement.",
"C09":"Whether the guard fires is a pure function of (chain, condition forms, configuration); observing the driver does not make it depend on anything a simulator controls.",
"C10":"The written column set is a pure function of (model tags, Select/Omit, value, write path); the clock only supplies a value.",
"C11":"Attachment of children is a pure function of (data graph, key values, preload path).",
"C12":"Association-mode sequences are sequential single-actor histories; the statement has no failure or interleaving in it (the operations are not even claimed atomic), so a reference-model run would be stateful property testing, not simulation.",
"C15":"Agreement of read paths and batch arithmetic is a pure function of (table, chain, batch size, limit/offset).",
"C16":"Convergence of Save/upsert/FirstOrCreate is stated over sequential single-actor histories; no failure or interleaving is part of it.",
"C17":"The compiled callback order is a pure function of the registration sequence.",
"C19":"That DryRun sends nothing and shows the executed SQL is a differential between two deterministic single-actor runs; the driver is only the place it is observed.",
"C20":"Idempotence and data preservation are stated over uninterrupted sequential histories; interrupting migrations at every DDL statement would test states the statement does not quantify over.",
}
PENDING = {
}
CHECKS = {
"C06": dict(cat="exploration", ref="DESIGN.md section 7, C06",
  text="Seeded histories of up to 12 chains over a tree of reusable handles (Open, Session, WithContext, Debug, Begin, chain.Session), steps of different chains interleaved by a schedule vector, chain methods (including other handles passed as sub-queries and group conditions) drawn swarm-style from a small per-history palette so that several chains touch the same clause of the same handle; every executed finisher (DryRun: Statement SQL+Vars; real: driver statements, bound values, rows, error) must equal the same chain replayed alone - only its own ancestry - on a fresh Open. Seeded sampling of histories. Handles may carry Session{CreateBatchSize}; a slice create runs straight on the handle in DryRun histories.",
  note="Trusted: a single chain is deterministic (the isolated replay is run twice and must agree with itself); intermediate chain values are used linearly; write finishers in real-mode histories go through a DryRun session.",
  tech="deterministic simulation: seeded interleaving of logical clients over a handle tree with isolation-replay oracle"),
"C14": dict(cat="exploration", ref="DESIGN.md section 7, C14",
  text="2..4 client tasks plus the closer goroutines gorm starts itself run 4 shared statement texts (query/exec, direct or in Begin..Commit/Rollback, one writer), Reset and Close through Config.PrepareStmt or Session{PrepareStmt:true} handles under the seeded scheduler, with planned Prepare failures and ErrBadConn bursts (thorough: simulated pool bound 1/2). Per run: no deadlock (all-waiting detection), every use returns the non-prepared rows / the injected fault / a closed-cache error explained by a Close (porcupine against an open/closed model), at most one pool-bound Prepare per text and cache generation, failed preparations not cached, every driver statement closed after the final Close, committed writer rows present; race-build runs add the race detector's verdict. Seeded sampling of schedules and fault plans. A task that waited for another task's failing preparation must return that preparation's error; the end-of-run Close must return.",
  note="Trusted: no parking inside database/sql (prepared executions interleave at whole-call granularity); `go stmt.Close()` goroutines of the ErrBadConn branches run outside the scheduler; the generation rule exempts transaction-bound preparations requested before a pool-bound entry existed and everything after a Close.",
  tech="deterministic simulation: seeded baton scheduler over Prepare/Exec/Reset/Close with fault injection, porcupine history check, driver-level leak accounting, race detector"),
"C07": dict(cat="exploration", ref="DESIGN.md section 7, C07",
  text="2..32 tasks share one *gorm.DB and run seeded programs (Create with nested associations, Find/First, Preload, Joins, Update(s), Delete, Transaction, Association calls) on disjoint rows, schema cache cold or warm, PrepareStmt on/off; a seeded scheduler (one runnable goroutine at a time, futex hand-off invisible to the race detector) decides every interleaving at pool calls, hooks, naming-strategy calls inside schema parsing and the simhook sites in gorm. Per run: every task's results and the final rows equal the serial run, no deadlock, no panic; race-build runs add: no race report with an access in gorm code (known racing pairs are listed individually). Seeded sampling of schedules, not enumeration. Tasks also build statements from shared handles that carry conditions and an order (Count called on them directly), or a setting; a club scenario runs nested preloads while another task makes first use of a model that has many of the preloaded one; a goroutine that sits on a real lock when the run stalls is a deadlock only if it still does after every task was released to run freely.",
  note="Trusted: the write-token serialisation of write transactions (SQLite single writer); no parking inside database/sql; the race detector's bounded history; the serial run as the reference for 'same result as when it runs alone'.",
  tech="deterministic simulation: seeded baton scheduler over real goroutines + race detector + serial-run differential"),
"C18": dict(cat="exploration", ref="DESIGN.md section 7, C18",
  text="Seeded write, read (preload, joins, batches, rows, count, pluck) and association-mode operations started from WithContext/Session{Context} with a uniquely tagged context, at transaction nesting 0..3, PrepareStmt on/off, ConnPool shim on/off, cold/warm, optionally after sibling handles bound to another (cancelled) context were derived from the operation's handle: the tag is checked on every ConnPool call and every context-carrying driver call while the run proceeds; the operation is re-run with the context cancelled beforehand (no statement may reach the driver, the context error is returned) and with the context cancelled just before pool call k for every k (no later statement may reach the driver, an error is returned, nothing leaks). The caller's context may also carry a far deadline, and the operation may run on tx.WithContext(ctx) of a transaction begun under another context.",
  note="Trusted: the tag is a context value (child contexts are fine); Commit/Rollback/Close carry no context; cancellation is injected between pool calls only; database/sql's own context handling.",
  tech="deterministic simulation: context-tag invariant at the pool and driver seams + cancellation injected at every pool call index"),
"C13": dict(cat="fault_enumeration", ref="DESIGN.md section 7, C13",
  text="Seeded create/save/update/delete/query operations over record graphs (trees, records shared by several parents with or without a key, children pointing back at their parent) with recording hooks on every model run on the real stack, fault-free (exactly-once and order per in-memory record, statement between before- and after-hooks, all hooks on the operation's own transaction, hook-set values stored, marker rows written through the hook's tx, silence under SkipHooks/UpdateColumn, AfterFind once per delivered row) and once per hook invocation with that invocation failing (error returned, nothing of a later phase runs, database unchanged, no leak). Sampled over operations, exhaustive over hook invocations per operation in the thorough tier. Also per write case: the operation's BEGIN failing (no hook may fire afterwards); models define hook subsets that separate every ordered pair of hook kinds; shared in-memory records at argument level; reads with key-less projections.",
  note="Trusted: record identity = address the hook receives; AfterFind accounting uses rows delivered by the driver; records sharing a key with another record of the same value are exempt from the must-be-visited rule (gorm saves one of them, which one is unspecified).",
  tech="deterministic simulation: hook-invocation fault enumeration with event-log oracle"),
"C04": dict(cat="fault_enumeration", ref="DESIGN.md section 7, C04",
  text="Seeded trees of Transaction blocks (and manual Begin/SavePoint/RollbackTo/Commit scripts) run in lock-step with a snapshot-stack reference model on the real gorm/database/sql/SQLite stack, fault-free and once per driver call (BEGIN, SAVEPOINT, ROLLBACK TO, statements, COMMIT, Prepare) with that call failing, and once per call into the connection pool with the caller's context cancelled just before it (nothing durable, an error reported); thorough adds fault pairs; a share of the programs starts from a handle that already carries an error. Checks durable table contents, read-backs inside blocks, identity of propagated errors/panics, usability of the enclosing transaction and leaked connections. Sampled over programs, exhaustive over single fault sites per program in the thorough tier. Blocks may contain batched creates (CreateInBatches as a unit of its own) whose failure the block handles; the ConnPool shim can hand out its transaction by value or refuse a Commit before delegating; an operation that never returns (a lock never released) is reported as a deadlock by a real-time watchdog.",
  note="Trusted: SQLite savepoint semantics as the reference for what a scope undoes; the dialector shim that reports SAVEPOINT/ROLLBACK TO errors; the narrow relaxations listed in DESIGN.md (refused ROLLBACK TO, lost COMMIT acknowledgement).",
  tech="deterministic simulation: driver fault enumeration over transaction-block programs vs snapshot-stack reference model"),
"C05": dict(cat="fault_enumeration", ref="DESIGN.md section 7, C05",
  text="Every write operation of a seeded sample of record graphs is run once per fault site (every driver call, result row and hook invocation of its fault-free run, and cancellation of the operation's context before every call into the connection pool; injected errors are plain or wrap a well-known error such as context.DeadlineExceeded or sql.ErrTxDone) on the real gorm/database/sql/SQLite stack; the database dump, the returned Error and leaked transactions/connections are checked after each. Exhaustive per case in the thorough tier, sampled over cases; a clean batch is evidence, not proof. A returned error that is not a join of several must let errors.As find the injected error; an operation that never returns is reported as a deadlock.",
  note="Trusted: SQLite transaction semantics, the driver shim's fault model (errors instead of or after execution, ErrBadConn only instead of execution), the dump side channel. One fault per run.",
  tech="deterministic simulation: per-site driver/hook fault enumeration with before/after dump oracle"),
}
m = {
 "version": 1,
 "setup_cmd": "cd /verif && ./setup.sh",
 "hooks": {"guard": "verif", "enable": "go build -tags verif (the simulation worker is built from /repo's working tree through a replace directive)",
           "baseline_off_cmd": "cd /repo && export GOFLAGS=-mod=mod GOPROXY=off GOSUMDB=off && go test -vet=off -count=1 ./... && cd tests && go test -vet=off -count=1 ./...",
           "source_commits": [], "add_only": True},
 "engines": [{"name": "gormsim", "path": "/verif/sim", "serves_properties": sorted(CHECKS),
              "kind_free_text": "deterministic simulation with fault injection: real gorm + database/sql + SQLite in one process, driver/pool shims, seeded case generation, fault enumeration, seeded scheduler, shrinking, JSON replay files"}],
 "checks": [
  {"property_id": k, "quick_cmd": f"./check {k} --tier quick", "thorough_cmd": f"./check {k} --tier thorough",
   "evidence_file": f"/verif/evidence/{k}.json", "replay_cmd_template": f"./check {k} --replay {{path}}", "engine": "gormsim",
   "level_claimed": {"category": v["cat"], "text": v["text"], "design_ref": v["ref"]},
   "level_note": v["note"], "technique": v["tech"]} for k, v in sorted(CHECKS.items())],
 "not_applicable": [{"property_id": k, "reason": v} for k, v in sorted({**NA, **{k: v for k, v in PENDING.items() if k not in CHECKS}}.items())],
 "notes": "Technique family: deterministic simulation with fault injection. See DESIGN.md.",
}
try:
    hooks = json.load(open('/verif/hooks.json'))
    m["hooks"]["source_commits"] = hooks.get("source_commits", [])
except FileNotFoundError:
    pass
json.dump(m, open('/verif/MANIFEST.json', 'w'), indent=1)
