#!/usr/bin/env python3-vt
import json, sys, glob, jsonschema
jsonschema.validate(json.load(open('/verif/MANIFEST.json')), json.load(open('/root/.vp/MANIFEST.schema.json')))
for f in glob.glob('/verif/evidence/*.json'):
    jsonschema.validate(json.load(open(f)), json.load(open('/root/.vp/EVIDENCE.schema.json')))
    print('ok', f)
m = json.load(open('/verif/MANIFEST.json'))
ids = {json.loads(l)['id'] for l in open('/verif/properties.jsonl')}
claimed = {c['property_id'] for c in m['checks']}
na = {c['property_id'] for c in m.get('not_applicable', [])}
assert claimed | na == ids and not (claimed & na), (claimed, na)
print('manifest ok; claimed', sorted(claimed))
